package main

import (
	"fmt"
	"bytes"
	"encoding/base64"
	"net/http"
	"net/url"

	"connectrpc.com/vanguard"
	testv1 "connectrpc.com/vanguard/internal/gen/vanguard/test/v1"
	"google.golang.org/protobuf/proto"
	"google.golang.org/protobuf/reflect/protoregistry"
)

// pxCodec is protobuf binary under another name, registered WITHOUT a stable encoding
type pxCodec struct{}

func (pxCodec) Name() string { return "px" }
func (pxCodec) MarshalAppend(b []byte, m proto.Message) ([]byte, error) {
	return proto.MarshalOptions{Deterministic: true}.MarshalAppend(b, m)
}
func (pxCodec) Unmarshal(b []byte, m proto.Message) error { return proto.Unmarshal(b, m) }

func buildGetTranscoder(backend http.Handler, codecs []string, noCompress bool, maxGet uint32, idem bool) (*vanguard.Transcoder, error) {
	opts := []vanguard.ServiceOption{vanguard.WithTargetProtocols(vanguard.ProtocolConnect), vanguard.WithTargetCodecs(codecs...)}
	if noCompress {
		opts = append(opts, vanguard.WithNoTargetCompression())
	}
	if maxGet != 0 {
		opts = append(opts, vanguard.WithMaxGetURLBytes(maxGet))
	}
	svc := vanguard.NewService(libraryService, backend, opts...)
	if idem {
		svc = vanguard.NewServiceWithSchema(idemServiceDesc(libraryService), backend, opts...)
	}
	return vanguard.NewTranscoder([]*vanguard.Service{svc}, vanguard.WithCodec(func(vanguard.TypeResolver) vanguard.Codec { return pxCodec{} }))
}

func init() {
	suites["getpost"] = func(c *ctx) {
		r := c.r
		_ = protoregistry.GlobalTypes
		for i := 0; i < c.n; i++ {
			serverCodec := pick(r, []string{"json", "proto", "px"})
			noCompress := r.chance(1, 2)
			// client: REST GET/POST, Connect GET, Connect POST, gRPC(-Web); methods: GetBook (NSE) and DeleteBook (side effects, REST DELETE)
			nse := r.chance(3, 4)
			name := bookName(pick(r, []string{"s", "shelf with space", "café", "a&b=c"}), pick(r, []string{"b", "x/y"[:1], "100%", "long" + string(bytes.Repeat([]byte("g"), r.intn(60)))}))
			var msg proto.Message = &testv1.GetBookRequest{Name: name}
			meth := methGetBook
			if !nse {
				meth = rpcMethod{Service: libraryService, Name: "DeleteBook", RestMethod: "DELETE"}
				msg = &testv1.DeleteBookRequest{Name: name}
			}
			// the same method declared IDEMPOTENT (not NO_SIDE_EFFECTS): GET is not allowed either
			idem := nse && r.chance(1, 4)
			if idem {
				nse = false
			}
			form := pick(r, []int{formConnectGet, formConnectGet, formREST, formConnectPost, formGRPC, formGRPCWeb})
			clientCodec := pick(r, []string{"proto", "json"})
			if clientCodec == serverCodec && form != formREST {
				continue // would be pass-through (or same-codec GET): keep to transcoded requests
			}
			comp := pick(r, []string{"", "gzip"})
			spec := clientSpec{Form: form, Codec: clientCodec, Comp: comp, Method: meth, Msgs: [][]byte{marshal(clientCodec, msg)}, Flags: []bool{true}}
			if form == formREST {
				u := url.URL{Path: "/v1/" + name}
				spec.RestPath = u.EscapedPath()
				spec.Comp = ""
				comp = ""
			}
			// first pass with a generous limit to learn the exact URL, then place the limit around it
			probe := func(maxGet uint32) (scenarioResult, bool) {
				var res scenarioResult
				backend := scriptedBackend(&res.Backend, []action{{Op: "readall", N: 512}, {Op: "status", N: 200}})
				tc, err := buildGetTranscoder(backend, []string{serverCodec}, noCompress, maxGet, idem)
				if err != nil {
					return res, false
				}
				return runOn(tc, spec.build(), &res), true
			}
			first, ok := probe(0)
			if !ok || first.Backend.Calls != 1 {
				// rejected (e.g. 405 for GET on a method with side effects): nothing issued
				if ok && first.Backend.Calls == 0 {
					allow := ""
					if v := first.Rec.hdr["Allow"]; len(v) > 0 {
						allow = v[0]
					}
					c.emit(Case{Suite: "getpost.reject", In: L{int64(form), nse, B(spec.build().Method)}, Out: L{int64(first.Rec.status()), B(allow)},
						Tags: []string{"getpost:rejected", "getpost.form:" + formNames[form], fmt.Sprintf("getpost.idem:%v", idem)}})
				}
				continue
			}
			urlLen := len(first.Backend.Path) + 1 + len(first.Backend.RawQuery)
			maxGet := uint32(0)
			tag := "default-limit"
			if first.Backend.Method == "GET" {
				delta := pick(r, []int{-1, 0, 1, -20, 50})
				maxGet = uint32(urlLen + delta)
				tag = "limit" + map[bool]string{true: "-fits", false: "-over"}[delta >= 0]
			}
			res, _ := probe(maxGet)
			if res.Backend.Calls != 1 {
				continue
			}
			// model input: the stable marshalling in the server codec (compressed if the server side compresses)
			stable := serverCodec != "px"
			binary := serverCodec != "json"
			var data []byte
			switch serverCodec {
			case "json":
				data, _ = vgJSON.MarshalAppendStable(nil, msg)
			default:
				data, _ = proto.MarshalOptions{Deterministic: true}.Marshal(msg)
			}
			serverComp := ""
			if comp == "gzip" && !noCompress {
				serverComp = "gzip"
				data = gzipBytes(data)
			}
			cfg := e2eConfig{Service: libraryService, Protocols: []vanguard.Protocol{vanguard.ProtocolConnect}, Codecs: []string{serverCodec}, NoCompress: noCompress, MaxGet: maxGet, Idem: idem}
			var mconf any
			for _, m := range tconfV(cfg)[0].(L) {
				if rStrHex(m.(L)[0]) == meth.path() {
					mconf = m
				}
			}
			in := L{B(spec.build().Method), mconf, stable, binary, B(serverCodec), B(serverComp), Bb(data)}
			isGet := res.Backend.Method == "GET"
			q := ""
			if isGet {
				q = res.Backend.RawQuery
			}
			c.emit(Case{Suite: "serve.getline", In: in, Out: L{isGet, B(q)}, Tags: []string{"getpost:" + tag, "getpost.form:" + formNames[form], "getpost.codec:" + serverCodec,
				"getpost.issued:" + res.Backend.Method, fmt.Sprintf("getpost.idem:%v", idem)}})
			// monitor input: what the backend can decode, from GET query or POST body, against the client's message
			var got []byte
			if isGet {
				vals, _ := url.ParseQuery(res.Backend.RawQuery)
				m := vals.Get("message")
				if vals.Get("base64") == "1" {
					got, _ = base64.RawURLEncoding.DecodeString(m)
				} else {
					got = []byte(m)
				}
				if vals.Get("compression") == "gzip" {
					got, _ = gunzipBytes(got)
				}
			} else {
				got = res.Backend.body()
				if res.Backend.Header.Get("Content-Encoding") == "gzip" {
					got, _ = gunzipBytes(got)
				}
			}
			dec := meth.NewReq
			if meth.Name == "DeleteBook" {
				dec = func() proto.Message { return &testv1.DeleteBookRequest{} }
			}
			gotMsg := dec()
			same := false
			if serverCodec == "json" {
				same = vgJSON.Unmarshal(got, gotMsg) == nil && proto.Equal(gotMsg, msg)
			} else {
				same = proto.Unmarshal(got, gotMsg) == nil && proto.Equal(gotMsg, msg)
			}
			clientWasGet := spec.build().Method == "GET"
			c.emit(Case{Suite: "getpost.issue", In: L{clientWasGet, nse, stable, int64(urlLen), int64(maxGet)}, Out: L{isGet, same, int64(len(res.Backend.Path) + 1 + len(res.Backend.RawQuery))},
				Tags: []string{"getpost.issue:" + res.Backend.Method}})
		}
	}
}

func rStrHex(v any) string { return rStr(v) }
