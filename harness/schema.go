package main

import (
	"sync"

	"google.golang.org/protobuf/proto"
	"google.golang.org/protobuf/reflect/protodesc"
	"google.golang.org/protobuf/reflect/protoreflect"
	"google.golang.org/protobuf/reflect/protoregistry"
	"google.golang.org/protobuf/types/descriptorpb"
	"google.golang.org/protobuf/types/dynamicpb"
)

// schemaMode selects how services are registered (C20):
// 0 generated code (NewService by name); 1 NewServiceWithSchema from a freshly built copy of the
// descriptors (protodesc, generated option types); 2 the same but with the google.api.http option
// parsed into dynamic messages of another descriptor instance, and a resolver that knows no type by name
// (so request and response messages are dynamic) but resolves the type URLs inside Any values
var schemaMode int

var dynOnce sync.Once
var dynFiles [3]*protoregistry.Files

func collectFiles(fd protoreflect.FileDescriptor, seen map[string]bool, out *[]*descriptorpb.FileDescriptorProto) {
	if seen[fd.Path()] {
		return
	}
	seen[fd.Path()] = true
	imps := fd.Imports()
	for i := 0; i < imps.Len(); i++ {
		collectFiles(imps.Get(i).FileDescriptor, seen, out)
	}
	*out = append(*out, protodesc.ToFileDescriptorProto(fd))
}

func buildDynamic() {
	var fdps []*descriptorpb.FileDescriptorProto
	seen := map[string]bool{}
	for _, name := range []string{libraryService, contentService} {
		d, err := protoregistry.GlobalFiles.FindDescriptorByName(protoreflect.FullName(name))
		if err != nil {
			panic(err)
		}
		collectFiles(d.ParentFile(), seen, &fdps)
	}
	set := &descriptorpb.FileDescriptorSet{File: fdps}
	files1, err := protodesc.NewFiles(set)
	if err != nil {
		panic(err)
	}
	dynFiles[1] = files1
	// mode 2: re-parse the descriptor set with extension types taken from the dynamic copy, so that
	// custom options are dynamic messages whose descriptors are not the generated ones
	raw, err := proto.Marshal(set)
	if err != nil {
		panic(err)
	}
	var set2 descriptorpb.FileDescriptorSet
	if err := (proto.UnmarshalOptions{Resolver: dynamicpb.NewTypes(files1)}).Unmarshal(raw, &set2); err != nil {
		panic(err)
	}
	files2, err := protodesc.NewFiles(&set2)
	if err != nil {
		panic(err)
	}
	dynFiles[2] = files2
}

type emptyResolver struct{}

func (emptyResolver) FindMessageByName(protoreflect.FullName) (protoreflect.MessageType, error) {
	return nil, protoregistry.NotFound
}
func (emptyResolver) FindMessageByURL(url string) (protoreflect.MessageType, error) {
	// what sits inside a google.protobuf.Any (error details) is not part of the service's schema:
	// a resolver that could not expand it would change behaviour for a reason that has nothing to
	// do with how the schema was loaded
	return protoregistry.GlobalTypes.FindMessageByURL(url)
}
func (emptyResolver) FindExtensionByName(protoreflect.FullName) (protoreflect.ExtensionType, error) {
	return nil, protoregistry.NotFound
}
func (emptyResolver) FindExtensionByNumber(protoreflect.FullName, protoreflect.FieldNumber) (protoreflect.ExtensionType, error) {
	return nil, protoregistry.NotFound
}

func dynamicServiceDesc(name string, mode int) protoreflect.ServiceDescriptor {
	dynOnce.Do(buildDynamic)
	d, err := dynFiles[mode].FindDescriptorByName(protoreflect.FullName(name))
	if err != nil {
		panic(err)
	}
	return d.(protoreflect.ServiceDescriptor)
}

// idemServiceDesc: the same schema with every NO_SIDE_EFFECTS method declared IDEMPOTENT instead
// (idempotent methods may have side effects: a Connect GET is not allowed for them).
var idemOnce sync.Once
var idemFiles = map[string]protoreflect.FileDescriptor{}

func idemServiceDesc(name string) protoreflect.ServiceDescriptor {
	idemOnce.Do(func() {
		for _, svc := range []string{libraryService, contentService} {
			d, err := protoregistry.GlobalFiles.FindDescriptorByName(protoreflect.FullName(svc))
			if err != nil {
				panic(err)
			}
			fdp := protodesc.ToFileDescriptorProto(d.ParentFile())
			for _, s := range fdp.Service {
				for _, m := range s.Method {
					if m.GetOptions().GetIdempotencyLevel() == descriptorpb.MethodOptions_NO_SIDE_EFFECTS {
						lvl := descriptorpb.MethodOptions_IDEMPOTENT
						m.Options.IdempotencyLevel = &lvl
					}
				}
			}
			fd, err := protodesc.NewFile(fdp, protoregistry.GlobalFiles)
			if err != nil {
				panic(err)
			}
			idemFiles[svc] = fd
		}
	})
	return idemFiles[name].Services().ByName(protoreflect.FullName(name).Name())
}
