package main

import (
	"compress/gzip"
	"fmt"
	"io"
	"net/http"
	"sort"
	"strings"
	"sync"

	"connectrpc.com/connect"
	"connectrpc.com/vanguard"
	"google.golang.org/genproto/googleapis/api/annotations"
	"google.golang.org/protobuf/proto"
	"google.golang.org/protobuf/reflect/protodesc"
	"google.golang.org/protobuf/reflect/protoreflect"
	"google.golang.org/protobuf/reflect/protoregistry"
	"google.golang.org/protobuf/types/descriptorpb"
	"google.golang.org/protobuf/types/dynamicpb"
	_ "google.golang.org/protobuf/types/known/timestamppb"
)

// C17: configurations of NewTranscoder. The schema is built at run time (no generated code), so that
// services, methods, fields of every kind and google.api.http annotations are data shared with the model.

type cfgBinding struct {
	Kind                         int // 0 none, 1 get, 2 put, 3 post, 4 delete, 5 patch, 6 custom
	Custom, Template, Body, Resp string
	Nested                       bool
}
type cfgRule struct {
	Selector   string
	Main       cfgBinding
	Additional []cfgBinding
}
type cfgOpt struct {
	Code  int // 0 protocols, 1 codecs, 2 compression, 3 max message buffer, 4 max GET URL
	Ints  []int
	Names []string
	N     uint32
}
type cfgService struct {
	Svc  int
	Opts []cfgOpt
}
type cfgConfig struct {
	Codecs, Comps []string
	Defaults      []cfgOpt
	Services      []cfgService
	Rules         []cfgRule
}

type cfgMethodDesc struct {
	Name   string
	Stream int
	Anno   *cfgRule
}
type cfgSvcDesc struct {
	Name    string
	Methods []cfgMethodDesc
}

const cfgPkg = "cfg.v1"

var cfgUniverse = []cfgSvcDesc{
	{"Alpha", []cfgMethodDesc{{"Get", 0, nil}, {"GetBook", 0, nil}, {"GetBookshelf", 0, nil}, {"Put", 0, nil}, {"Watch", 2, nil}}},
	{"AlphaBeta", []cfgMethodDesc{{"Get", 0, nil}, {"List", 0, nil}}},
	{"Beta", []cfgMethodDesc{
		{"Do", 0, &cfgRule{Main: cfgBinding{Kind: 3, Template: "/anno/do", Body: "*"}}},
		{"Get", 0, &cfgRule{Main: cfgBinding{Kind: 1, Template: "/anno/{name}"}, Additional: []cfgBinding{{Kind: 1, Template: "/anno/alt/{inner.id}/{num}"}}}},
		{"Plain", 0, nil}}},
	{"Zed", []cfgMethodDesc{{"Get", 0, nil}}},
}

func (b cfgBinding) httpRule() *annotations.HttpRule {
	r := &annotations.HttpRule{Body: b.Body, ResponseBody: b.Resp}
	switch b.Kind {
	case 1:
		r.Pattern = &annotations.HttpRule_Get{Get: b.Template}
	case 2:
		r.Pattern = &annotations.HttpRule_Put{Put: b.Template}
	case 3:
		r.Pattern = &annotations.HttpRule_Post{Post: b.Template}
	case 4:
		r.Pattern = &annotations.HttpRule_Delete{Delete: b.Template}
	case 5:
		r.Pattern = &annotations.HttpRule_Patch{Patch: b.Template}
	case 6:
		r.Pattern = &annotations.HttpRule_Custom{Custom: &annotations.CustomHttpPattern{Kind: b.Custom, Path: b.Template}}
	}
	if b.Nested {
		r.AdditionalBindings = []*annotations.HttpRule{{Pattern: &annotations.HttpRule_Get{Get: "/nested/x"}}}
	}
	return r
}

func (r cfgRule) httpRule() *annotations.HttpRule {
	out := r.Main.httpRule()
	out.Selector = r.Selector
	for _, a := range r.Additional {
		out.AdditionalBindings = append(out.AdditionalBindings, a.httpRule())
	}
	return out
}

func (b cfgBinding) method() string {
	switch b.Kind {
	case 1:
		return "GET"
	case 2:
		return "PUT"
	case 3:
		return "POST"
	case 4:
		return "DELETE"
	case 5:
		return "PATCH"
	case 6:
		return b.Custom
	}
	return ""
}

var cfgSchemaOnce sync.Once
var cfgFile protoreflect.FileDescriptor

func cfgSchema() protoreflect.FileDescriptor {
	cfgSchemaOnce.Do(func() {
		lbl := descriptorpb.FieldDescriptorProto_LABEL_OPTIONAL.Enum
		rep := descriptorpb.FieldDescriptorProto_LABEL_REPEATED.Enum
		tString := descriptorpb.FieldDescriptorProto_TYPE_STRING.Enum
		tMsg := descriptorpb.FieldDescriptorProto_TYPE_MESSAGE.Enum
		f := func(name string, num int32, label *descriptorpb.FieldDescriptorProto_Label, typ *descriptorpb.FieldDescriptorProto_Type, typeName string) *descriptorpb.FieldDescriptorProto {
			fd := &descriptorpb.FieldDescriptorProto{Name: proto.String(name), Number: proto.Int32(num), Label: label, Type: typ, JsonName: proto.String(name)}
			if typeName != "" {
				fd.TypeName = proto.String(typeName)
			}
			return fd
		}
		fdp := &descriptorpb.FileDescriptorProto{
			Name: proto.String("cfg/v1/cfg.proto"), Package: proto.String(cfgPkg), Syntax: proto.String("proto3"),
			Dependency: []string{"google/protobuf/timestamp.proto", "google/api/annotations.proto"},
			EnumType: []*descriptorpb.EnumDescriptorProto{{Name: proto.String("Kind"), Value: []*descriptorpb.EnumValueDescriptorProto{
				{Name: proto.String("KIND_UNSPECIFIED"), Number: proto.Int32(0)}, {Name: proto.String("KIND_A"), Number: proto.Int32(1)}}}},
			MessageType: []*descriptorpb.DescriptorProto{
				{Name: proto.String("Deep"), Field: []*descriptorpb.FieldDescriptorProto{f("key", 1, lbl(), tString(), "")}},
				{Name: proto.String("Inner"), Field: []*descriptorpb.FieldDescriptorProto{
					f("id", 1, lbl(), tString(), ""), f("ids", 2, rep(), tString(), ""), f("deep", 3, lbl(), tMsg(), ".cfg.v1.Deep")}},
				{Name: proto.String("Req"), Field: []*descriptorpb.FieldDescriptorProto{
					f("name", 1, lbl(), tString(), ""),
					f("num", 2, lbl(), descriptorpb.FieldDescriptorProto_TYPE_INT32.Enum(), ""),
					f("tags", 3, rep(), tString(), ""),
					f("labels", 4, rep(), tMsg(), ".cfg.v1.Req.LabelsEntry"),
					f("inner", 5, lbl(), tMsg(), ".cfg.v1.Inner"),
					f("ts", 6, lbl(), tMsg(), ".google.protobuf.Timestamp"),
					f("kind", 7, lbl(), descriptorpb.FieldDescriptorProto_TYPE_ENUM.Enum(), ".cfg.v1.Kind"),
					f("raw", 8, lbl(), descriptorpb.FieldDescriptorProto_TYPE_BYTES.Enum(), ""),
					f("inners", 9, rep(), tMsg(), ".cfg.v1.Inner"),
				}, NestedType: []*descriptorpb.DescriptorProto{{Name: proto.String("LabelsEntry"),
					Field:   []*descriptorpb.FieldDescriptorProto{f("key", 1, lbl(), tString(), ""), f("value", 2, lbl(), tString(), "")},
					Options: &descriptorpb.MessageOptions{MapEntry: proto.Bool(true)}}}},
				{Name: proto.String("Resp"), Field: []*descriptorpb.FieldDescriptorProto{
					f("name", 1, lbl(), tString(), ""), f("inner", 2, lbl(), tMsg(), ".cfg.v1.Inner"), f("items", 3, rep(), tString(), "")}},
			},
		}
		for _, s := range cfgUniverse {
			sd := &descriptorpb.ServiceDescriptorProto{Name: proto.String(s.Name)}
			for _, m := range s.Methods {
				md := &descriptorpb.MethodDescriptorProto{Name: proto.String(m.Name), InputType: proto.String(".cfg.v1.Req"), OutputType: proto.String(".cfg.v1.Resp")}
				if m.Stream == 2 {
					md.ServerStreaming = proto.Bool(true)
				}
				if m.Anno != nil {
					md.Options = &descriptorpb.MethodOptions{}
					proto.SetExtension(md.Options, annotations.E_Http, m.Anno.httpRule())
				}
				sd.Method = append(sd.Method, md)
			}
			fdp.Service = append(fdp.Service, sd)
		}
		fd, err := protodesc.NewFile(fdp, protoregistry.GlobalFiles)
		if err != nil {
			panic(err)
		}
		cfgFile = fd
	})
	return cfgFile
}

// ---- what the model is told

func cfgFieldV(fd protoreflect.FieldDescriptor) L {
	kind, card, msg := int64(0), int64(0), ""
	if fd.Message() != nil {
		kind = 1
		msg = string(fd.Message().FullName())
		switch msg {
		case "google.protobuf.Timestamp", "google.protobuf.Duration", "google.protobuf.FieldMask", "google.protobuf.StringValue",
			"google.protobuf.Int32Value", "google.protobuf.Int64Value", "google.protobuf.BoolValue", "google.protobuf.BytesValue":
			kind = 2
		}
	}
	switch {
	case fd.IsMap():
		card = 2
	case fd.IsList():
		card = 1
	}
	return L{B(string(fd.Name())), kind, card, B(msg)}
}

func cfgSchemaV() L {
	fd := cfgSchema()
	var msgs L
	var walk func(md protoreflect.MessageDescriptor)
	seen := map[string]bool{}
	walk = func(md protoreflect.MessageDescriptor) {
		if seen[string(md.FullName())] {
			return
		}
		seen[string(md.FullName())] = true
		fields := L{}
		for i := 0; i < md.Fields().Len(); i++ {
			f := md.Fields().Get(i)
			fields = append(fields, cfgFieldV(f))
			if f.Message() != nil {
				defer walk(f.Message())
			}
		}
		msgs = append(msgs, L{B(string(md.FullName())), fields})
	}
	for i := 0; i < fd.Messages().Len(); i++ {
		walk(fd.Messages().Get(i))
	}
	return msgs
}

func cfgBindingV(b cfgBinding) L {
	return L{int64(b.Kind), B(b.Custom), B(b.Template), B(b.Body), B(b.Resp), b.Nested}
}
func cfgRuleV(r cfgRule) L {
	add := L{}
	for _, a := range r.Additional {
		add = append(add, cfgBindingV(a))
	}
	return L{B(r.Selector), cfgBindingV(r.Main), add}
}
func cfgOptV(o cfgOpt) L {
	ints := L{}
	for _, i := range o.Ints {
		ints = append(ints, int64(i))
	}
	return L{int64(o.Code), ints, Bl(o.Names), int64(o.N)}
}
func cfgOptsV(os []cfgOpt) L {
	out := L{}
	for _, o := range os {
		out = append(out, cfgOptV(o))
	}
	return out
}
func cfgSvcDescV(s cfgSvcDesc) L {
	ms := L{}
	for _, m := range s.Methods {
		rule := L{}
		if m.Anno != nil {
			rule = L{cfgRuleV(*m.Anno)}
		}
		ms = append(ms, L{B(m.Name), B(cfgPkg + ".Req"), B(cfgPkg + ".Resp"), int64(m.Stream), false, rule})
	}
	return L{B(cfgPkg + "." + s.Name), ms}
}
func (c cfgConfig) value() L {
	svcs := L{}
	for _, s := range c.Services {
		svcs = append(svcs, L{cfgSvcDescV(cfgUniverse[s.Svc]), cfgOptsV(s.Opts)})
	}
	rules := L{}
	for _, r := range c.Rules {
		rules = append(rules, cfgRuleV(r))
	}
	return L{Bl(c.Codecs), Bl(c.Comps), cfgOptsV(c.Defaults), svcs, rules}
}

// ---- building the real thing

func (o cfgOpt) option() vanguard.ServiceOption {
	switch o.Code {
	case 0:
		ps := make([]vanguard.Protocol, len(o.Ints))
		for i, p := range o.Ints {
			ps[i] = vanguard.Protocol(p)
		}
		return vanguard.WithTargetProtocols(ps...)
	case 1:
		return vanguard.WithTargetCodecs(o.Names...)
	case 2:
		return vanguard.WithTargetCompression(o.Names...)
	case 3:
		return vanguard.WithMaxMessageBufferBytes(o.N)
	default:
		return vanguard.WithMaxGetURLBytes(o.N)
	}
}

func cfgOptions(os []cfgOpt) []vanguard.ServiceOption {
	out := make([]vanguard.ServiceOption, len(os))
	for i, o := range os {
		out[i] = o.option()
	}
	return out
}

func (c cfgConfig) build(backend http.Handler) (*vanguard.Transcoder, error) {
	fd := cfgSchema()
	var services []*vanguard.Service
	for _, s := range c.Services {
		sd := fd.Services().ByName(protoreflect.Name(cfgUniverse[s.Svc].Name))
		services = append(services, vanguard.NewServiceWithSchema(sd, backend, cfgOptions(s.Opts)...))
	}
	var topts []vanguard.TranscoderOption
	for _, name := range c.Codecs {
		name := name
		topts = append(topts, vanguard.WithCodec(func(vanguard.TypeResolver) vanguard.Codec { return namedCodec{name} }))
	}
	for _, name := range c.Comps {
		topts = append(topts, vanguard.WithCompression(name,
			func() connect.Compressor { return gzip.NewWriter(io.Discard) },
			func() connect.Decompressor { return &gzip.Reader{} }))
	}
	if len(c.Defaults) > 0 {
		topts = append(topts, vanguard.WithDefaultServiceOptions(cfgOptions(c.Defaults)...))
	}
	if len(c.Rules) > 0 {
		var rules []*annotations.HttpRule
		for _, r := range c.Rules {
			rules = append(rules, r.httpRule())
		}
		topts = append(topts, vanguard.WithRules(rules...))
	}
	return vanguard.NewTranscoder(services, topts...)
}

// namedCodec is protobuf binary under another name
type namedCodec struct{ name string }

func (c namedCodec) Name() string { return c.name }
func (namedCodec) MarshalAppend(b []byte, m proto.Message) ([]byte, error) {
	return proto.MarshalOptions{}.MarshalAppend(b, m)
}
func (namedCodec) Unmarshal(b []byte, m proto.Message) error { return proto.Unmarshal(b, m) }

// ---- generator

var cfgVarPool = []string{"{name}", "{inner.id}", "{num}", "{ts}", "{kind}", "{inner.deep.key}", "{name=shelves/*}", "{name=shelves/*/books/*}", "{raw}"}

type cfgGen struct {
	r       *rng
	nextLit int
}

func (g *cfgGen) lit() string {
	g.nextLit++
	return fmt.Sprintf("r%d", g.nextLit)
}

// a valid template with a literal prefix no other binding uses
func (g *cfgGen) template() string {
	r := g.r
	segs := []string{g.lit()}
	used := map[string]bool{}
	for k := r.intn(4); k > 0; k-- {
		switch r.intn(4) {
		case 0:
			segs = append(segs, pick(r, []string{"v1", "books", "x-y", "a.b", "~t"}))
		case 1:
			segs = append(segs, "*")
		default:
			v := pick(r, cfgVarPool)
			name := v[1:strings.IndexAny(v, "=}")]
			if !used[name] {
				used[name] = true
				segs = append(segs, v)
			}
		}
	}
	if r.chance(1, 5) {
		if r.chance(1, 2) && !used["name"] {
			segs = append(segs, "{name=**}")
		} else {
			segs = append(segs, "**")
		}
	}
	t := "/" + strings.Join(segs, "/")
	if r.chance(1, 5) {
		t += ":" + pick(r, []string{"go", "verb", "x1"})
	}
	return t
}

func (g *cfgGen) binding() cfgBinding {
	r := g.r
	b := cfgBinding{Kind: 1 + r.intn(5), Template: g.template()}
	if r.chance(1, 8) {
		b.Kind, b.Custom = 6, pick(r, []string{"HEAD", "LIST", "get"})
	}
	b.Body = pick(r, []string{"", "", "*", "inner", "name", "tags", "labels"})
	b.Resp = pick(r, []string{"", "", "*", "inner", "items"})
	return b
}

func cfgFullName(svc int, method string) string {
	return cfgPkg + "." + cfgUniverse[svc].Name + "." + method
}

func (g *cfgGen) validOpts(restOK bool) []cfgOpt {
	r := g.r
	var out []cfgOpt
	for k := r.intn(4); k > 0; k-- {
		switch r.intn(5) {
		case 0:
			all := []int{1, 2, 3, 4}
			var ps []int
			for _, p := range all {
				if r.chance(1, 2) && (p != 4 || restOK) {
					ps = append(ps, p)
				}
			}
			if len(ps) == 0 {
				ps = []int{pick(r, []int{1, 2, 3})}
			}
			if r.chance(1, 4) {
				ps = append(ps, ps[0]) // a repeated entry is harmless
			}
			out = append(out, cfgOpt{Code: 0, Ints: ps})
		case 1:
			out = append(out, cfgOpt{Code: 1, Names: pick(r, [][]string{{"proto"}, {"json"}, {"json", "proto"}, {"proto", "json"}, {"px", "json"}, {"px"}})})
		case 2:
			out = append(out, cfgOpt{Code: 2, Names: pick(r, [][]string{{}, {"gzip"}, {"zz"}, {"gzip", "zz"}})})
		case 3:
			out = append(out, cfgOpt{Code: 3, N: pick(r, []uint32{1, 1000, 1 << 20, 4294967295})})
		case 4:
			out = append(out, cfgOpt{Code: 4, N: pick(r, []uint32{1, 100, 8192})})
		}
	}
	return out
}

// effective protocols are REST only?
func cfgRestOnly(defaults, opts []cfgOpt) bool {
	var last *cfgOpt
	for i := range defaults {
		if defaults[i].Code == 0 {
			last = &defaults[i]
		}
	}
	for i := range opts {
		if opts[i].Code == 0 {
			last = &opts[i]
		}
	}
	if last == nil || len(last.Ints) == 0 {
		return false
	}
	for _, p := range last.Ints {
		if p != 4 {
			return false
		}
	}
	return true
}

// gen returns a configuration and the defects deliberately planted in it (none: it must be accepted)
func (g *cfgGen) gen() (cfgConfig, []string) {
	r := g.r
	c := cfgConfig{Codecs: []string{"px"}, Comps: []string{"zz"}}
	order := []int{0, 1, 2, 3}
	for i := len(order) - 1; i > 0; i-- {
		j := r.intn(i + 1)
		order[i], order[j] = order[j], order[i]
	}
	order = order[:1+r.intn(4)]
	c.Defaults = g.validOpts(false)
	for _, s := range order {
		c.Services = append(c.Services, cfgService{Svc: s, Opts: g.validOpts(true)})
	}
	// rules with exact selectors, or a wildcard that covers exactly one method
	hasRule := map[string]bool{}
	for _, s := range c.Services {
		for _, m := range cfgUniverse[s.Svc].Methods {
			if m.Anno != nil {
				hasRule[cfgFullName(s.Svc, m.Name)] = true
			}
		}
	}
	addRule := func(svc int, method string) {
		rule := cfgRule{Selector: cfgFullName(svc, method), Main: g.binding()}
		if cfgUniverse[svc].Name == "Zed" && r.chance(1, 2) {
			rule.Selector = cfgPkg + ".Zed.*"
			if len(c.Services) == 1 && r.chance(1, 2) {
				rule.Selector = pick(r, []string{"*", "cfg.*", "cfg.v1.*"})
			}
		}
		for k := r.intn(3); k > 0 && r.chance(1, 2); k-- {
			rule.Additional = append(rule.Additional, g.binding())
		}
		c.Rules = append(c.Rules, rule)
		hasRule[cfgFullName(svc, method)] = true
	}
	for k := r.intn(5); k > 0; k-- {
		s := pick(r, c.Services)
		addRule(s.Svc, pick(r, cfgUniverse[s.Svc].Methods).Name)
	}
	// a REST-only service needs at least one method with a rule
	for _, s := range c.Services {
		if !cfgRestOnly(c.Defaults, s.Opts) {
			continue
		}
		ok := false
		for _, m := range cfgUniverse[s.Svc].Methods {
			ok = ok || hasRule[cfgFullName(s.Svc, m.Name)]
		}
		if !ok {
			addRule(s.Svc, cfgUniverse[s.Svc].Methods[0].Name)
		}
	}
	if r.chance(1, 2) {
		return c, nil
	}
	return g.plant(c)
}

func (g *cfgGen) plant(c cfgConfig) (cfgConfig, []string) {
	r := g.r
	si := r.intn(len(c.Services))
	svc := &c.Services[si]
	addOpt := func(o cfgOpt) {
		if r.chance(1, 3) {
			c.Defaults = append(c.Defaults, o)
			// a default only matters where no service option of that kind follows
			for i := range c.Services {
				var kept []cfgOpt
				for _, so := range c.Services[i].Opts {
					if so.Code != o.Code {
						kept = append(kept, so)
					}
				}
				c.Services[i].Opts = kept
			}
		} else {
			svc.Opts = append(svc.Opts, o)
		}
	}
	ensureRule := func() *cfgRule {
		if len(c.Rules) == 0 {
			m := pick(r, cfgUniverse[svc.Svc].Methods)
			c.Rules = append(c.Rules, cfgRule{Selector: cfgFullName(svc.Svc, m.Name), Main: g.binding()})
		}
		return &c.Rules[r.intn(len(c.Rules))]
	}
	anyBinding := func(rule *cfgRule) *cfgBinding {
		if len(rule.Additional) > 0 && r.chance(1, 2) {
			return &rule.Additional[r.intn(len(rule.Additional))]
		}
		return &rule.Main
	}
	switch r.intn(17) {
	case 0:
		addOpt(cfgOpt{Code: 1, Names: pick(r, [][]string{{"xml"}, {"proto", "xml"}, {"PROTO"}})})
		return c, []string{"unknown-codec"}
	case 1:
		addOpt(cfgOpt{Code: 2, Names: pick(r, [][]string{{"br"}, {"gzip", "snappy"}, {"GZIP"}})})
		return c, []string{"unknown-compression"}
	case 2:
		addOpt(cfgOpt{Code: 0, Ints: pick(r, [][]int{{}, {9}, {1, 0}, {2, 5}})})
		return c, []string{"no-or-bad-protocol"}
	case 3:
		addOpt(cfgOpt{Code: 1, Names: []string{}})
		return c, []string{"no-codec"}
	case 4:
		c.Services = append(c.Services, cfgService{Svc: svc.Svc, Opts: g.validOpts(false)})
		return c, []string{"duplicate-service"}
	case 5:
		b := anyBinding(ensureRule())
		b.Template = pick(r, []string{"", "v1/x", "/v1/{name", "/v1/**/x", "/v1/{name}/{name}", "/v1//x", "/v1/{name=}", "/v1/x:", "/v1/{name=**}/y", "/{1a}", "/v1/x y", "/v1/{name}}"})
		return c, []string{"bad-template"}
	case 6:
		rule := ensureRule()
		dup := *rule
		dup.Additional = nil
		if r.chance(1, 2) {
			// the same pattern for another method
			s2 := pick(r, c.Services)
			dup.Selector = cfgFullName(s2.Svc, pick(r, cfgUniverse[s2.Svc].Methods).Name)
		}
		if r.chance(1, 2) && len(dup.Main.Template) > 0 {
			// same path, other variable names
			dup.Main.Template = strings.NewReplacer("{name}", "{inner.id}", "{num}", "{kind}", "/*", "/{raw}").Replace(dup.Main.Template)
		}
		dup.Main.Body, dup.Main.Resp = "", ""
		c.Rules = append(c.Rules, dup)
		return c, []string{"conflicting-templates"}
	case 7:
		b := anyBinding(ensureRule())
		if r.chance(1, 2) {
			b.Body = pick(r, []string{"nope", "inner.id", "inner.", ".", "name.x", "Inner"})
		} else {
			b.Resp = pick(r, []string{"nope", "inner.id", "item", "inner.ids.x"})
		}
		return c, []string{"bad-body"}
	case 8:
		b := anyBinding(ensureRule())
		v := pick(r, []string{"{nope}", "{tags}", "{labels}", "{inner}", "{name.x}", "{inners.id}", "{inner.ids}", "{inner.deep}", "{inners}", "{labels.key}"})
		b.Template = "/" + g.lit() + "/" + v
		return c, []string{"bad-variable:" + v}
	case 9:
		rule := ensureRule()
		absent := -1
		for i := range cfgUniverse {
			present := false
			for _, s := range c.Services {
				present = present || s.Svc == i
			}
			if !present {
				absent = i
			}
		}
		sels := []string{cfgPkg + "." + cfgUniverse[svc.Svc].Name + ".Nope", cfgPkg + ".Alp.*", cfgPkg + "." + cfgUniverse[svc.Svc].Name, "cfg.v2.*",
			cfgFullName(svc.Svc, cfgUniverse[svc.Svc].Methods[0].Name)[:len(cfgFullName(svc.Svc, cfgUniverse[svc.Svc].Methods[0].Name))-1],
			cfgFullName(svc.Svc, cfgUniverse[svc.Svc].Methods[0].Name) + "x", "/" + cfgPkg + "." + cfgUniverse[svc.Svc].Name + "/" + cfgUniverse[svc.Svc].Methods[0].Name}
		if absent >= 0 {
			sels = append(sels, cfgFullName(absent, cfgUniverse[absent].Methods[0].Name), cfgPkg+"."+cfgUniverse[absent].Name+".*")
		}
		rule.Selector = pick(r, sels)
		return c, []string{"selector-matches-nothing"}
	case 10:
		ensureRule().Selector = pick(r, []string{"", cfgPkg + ".Alpha*", "cfg.*.Get", "*x", "**", "cfg.v1.Zed.*.*", cfgPkg + ".Zed.Ge*"})
		return c, []string{"malformed-selector"}
	case 11:
		// REST only, nothing bound
		var kept []cfgRule
		name := cfgPkg + "." + cfgUniverse[svc.Svc].Name + "."
		for _, rule := range c.Rules {
			if !strings.HasPrefix(rule.Selector, name) && !strings.HasSuffix(rule.Selector, "*") {
				kept = append(kept, rule)
			}
		}
		annotated := false
		for _, m := range cfgUniverse[svc.Svc].Methods {
			annotated = annotated || m.Anno != nil
		}
		if annotated {
			return c, nil
		}
		c.Rules = kept
		svc.Opts = append(svc.Opts, cfgOpt{Code: 0, Ints: []int{4}})
		return c, []string{"rest-only-without-bindings"}
	case 12:
		rule := ensureRule()
		if len(rule.Additional) == 0 {
			rule.Additional = append(rule.Additional, g.binding())
		}
		rule.Additional[r.intn(len(rule.Additional))].Nested = true
		return c, []string{"?nested-additional-bindings"}
	case 13:
		if len(cfgUniverse[svc.Svc].Methods) < 2 {
			return c, nil
		}
		c.Rules = append(c.Rules, cfgRule{Selector: cfgPkg + "." + cfgUniverse[svc.Svc].Name + ".*", Main: g.binding()})
		return c, []string{"wildcard-over-several-methods"}
	case 14:
		b := anyBinding(ensureRule())
		if r.chance(1, 2) {
			b.Kind = 0
		} else {
			b.Kind, b.Custom = 6, ""
		}
		return c, []string{"no-pattern"}
	case 15:
		if r.chance(1, 2) {
			addOpt(cfgOpt{Code: 3, N: 0})
		} else {
			addOpt(cfgOpt{Code: 4, N: 0})
		}
		return c, []string{"?zero-limit"}
	default:
		// an exact selector that is a proper prefix of other method names is fine: it names one method
		if cfgUniverse[svc.Svc].Name == "Alpha" {
			c.Rules = append(c.Rules, cfgRule{Selector: cfgPkg + ".Alpha.Get", Main: g.binding()})
		}
		return c, nil
	}
}

// ---- probes: request lines built from the templates

type cfgProbe struct {
	URI, Method string
	Owner       string // method path expected to serve it ("" = no expectation)
}

func (c cfgConfig) probes(r *rng) []cfgProbe {
	var out []cfgProbe
	tok := 0
	token := func() string { tok++; return fmt.Sprintf("t%d", tok) }
	add := func(owner string, b cfgBinding) {
		path, verb, _, ok := vanguard.VerifParsePathTemplate(b.Template)
		if !ok || b.method() == "" {
			return
		}
		for variant := 0; variant < 2; variant++ {
			var segs []string
			wild := false
			for _, s := range path {
				switch s {
				case "*":
					segs = append(segs, token())
				case "**":
					wild = true
					segs = append(segs, token())
					if variant == 1 {
						segs = append(segs, token(), "a%2Fb")
					}
				default:
					segs = append(segs, s)
				}
			}
			uri := "/" + strings.Join(segs, "/")
			if verb != "" {
				uri += ":" + verb
			}
			out = append(out, cfgProbe{uri, b.method(), owner})
			if variant == 0 {
				out = append(out, cfgProbe{uri, pick(r, []string{"GET", "POST", "OPTIONS"}), ""}, cfgProbe{uri + "/zz", b.method(), ""})
			}
			if !wild {
				break
			}
		}
	}
	for _, s := range c.Services {
		for _, m := range cfgUniverse[s.Svc].Methods {
			owner := "/" + cfgPkg + "." + cfgUniverse[s.Svc].Name + "/" + m.Name
			if m.Anno != nil {
				add(owner, m.Anno.Main)
				for _, a := range m.Anno.Additional {
					add(owner, a)
				}
			}
			for _, rule := range c.Rules {
				sel := rule.Selector
				full := cfgFullName(s.Svc, m.Name)
				if sel == full || (strings.HasSuffix(sel, "*") && strings.HasPrefix(full, strings.TrimSuffix(sel, "*"))) {
					add(owner, rule.Main)
					for _, a := range rule.Additional {
						add(owner, a)
					}
				}
			}
		}
	}
	out = append(out, cfgProbe{"/nothing/here", "GET", ""})
	return out
}

func sortedL(ss []string) L {
	ss = append([]string(nil), ss...)
	sort.Strings(ss)
	return Bl(ss)
}

func runConfigCase(c cfgConfig, probes []cfgProbe) L {
	sb := &switchBackend{}
	tc, err := c.build(sb)
	if err != nil {
		return L{false, L{}, L{}}
	}
	var methods L
	var paths []string
	for _, s := range c.Services {
		for _, m := range cfgUniverse[s.Svc].Methods {
			paths = append(paths, "/"+cfgPkg+"."+cfgUniverse[s.Svc].Name+"/"+m.Name)
		}
	}
	sort.Strings(paths)
	for _, p := range paths {
		mo := vanguard.VerifMethodConfig(tc, p)
		ps := L{}
		sort.Ints(mo.Protocols)
		for _, x := range mo.Protocols {
			ps = append(ps, int64(x))
		}
		methods = append(methods, L{B(p), mo.Found, ps, sortedL(mo.Codecs), B(mo.PreferredCodec), sortedL(mo.Compressors),
			int64(mo.MaxMsgBufferBytes), int64(mo.MaxGetURLBytes), mo.HasHTTPRule, B(mo.RuleMethod), Bl(mo.RulePath), B(mo.RuleVerb)})
	}
	if methods == nil {
		methods = L{}
	}
	pv := L{}
	for _, p := range probes {
		m := vanguard.VerifMatchRoute(tc, p.URI, p.Method)
		pv = append(pv, L{B(m.MethodPath), B(m.Body), B(m.ResponseBody), Bl(m.VarPaths), Bl(m.VarValues), sortedL(m.Allowed)})
	}
	return L{true, methods, pv}
}

func cfgProbesV(ps []cfgProbe) (L, L) {
	in, owners := L{}, L{}
	for _, p := range ps {
		in = append(in, L{B(p.URI), B(p.Method)})
		owners = append(owners, B(p.Owner))
	}
	return in, owners
}

func init() {
	suites["configs"] = func(c *ctx) {
		g := &cfgGen{r: c.r}
		schema := cfgSchemaV()
		for i := 0; i < c.n; i++ {
			g.nextLit = 0
			cfg, defects := g.gen()
			probes := cfg.probes(c.r)
			pin, owners := cfgProbesV(probes)
			out := runConfigCase(cfg, probes)
			tags := []string{fmt.Sprintf("config.services:%d", len(cfg.Services)), fmt.Sprintf("config.rules:%d", min(len(cfg.Rules), 4))}
			if len(defects) == 0 {
				tags = append(tags, "config:valid")
			}
			for _, d := range defects {
				tags = append(tags, "config.defect:"+strings.SplitN(d, ":", 2)[0], "config:invalid")
			}
			if out[0].(bool) {
				tags = append(tags, "config.outcome:accepted")
			} else {
				tags = append(tags, "config.outcome:rejected")
			}
			c.emit(Case{Suite: "config.new", In: L{schema, cfg.value(), pin, L{Bl(defects), owners}}, Out: out, Tags: tags, Desc: strings.Join(defects, ",")})
		}
	}
	replayers["config.new"] = func(in any) any {
		l := rList(in)
		cfg := cfgFromV(l[1])
		var probes []cfgProbe
		for _, p := range rList(l[2]) {
			probes = append(probes, cfgProbe{URI: rStr(rList(p)[0]), Method: rStr(rList(p)[1])})
		}
		return runConfigCase(cfg, probes)
	}
	_ = dynamicpb.NewMessage
}

// decoding a recorded configuration (replay)
func rStrs(v any) []string {
	out := []string{}
	for _, x := range rList(v) {
		out = append(out, rStr(x))
	}
	return out
}
func cfgBindingFromV(v any) cfgBinding {
	l := rList(v)
	return cfgBinding{Kind: int(rInt(l[0])), Custom: rStr(l[1]), Template: rStr(l[2]), Body: rStr(l[3]), Resp: rStr(l[4]), Nested: rBool(l[5])}
}
func cfgRuleFromV(v any) cfgRule {
	l := rList(v)
	r := cfgRule{Selector: rStr(l[0]), Main: cfgBindingFromV(l[1])}
	for _, a := range rList(l[2]) {
		r.Additional = append(r.Additional, cfgBindingFromV(a))
	}
	return r
}
func cfgOptsFromV(v any) []cfgOpt {
	var out []cfgOpt
	for _, o := range rList(v) {
		l := rList(o)
		opt := cfgOpt{Code: int(rInt(l[0])), Names: rStrs(l[2]), N: uint32(rInt(l[3]))}
		for _, i := range rList(l[1]) {
			opt.Ints = append(opt.Ints, int(rInt(i)))
		}
		out = append(out, opt)
	}
	return out
}
func cfgFromV(v any) cfgConfig {
	l := rList(v)
	c := cfgConfig{Codecs: rStrs(l[0]), Comps: rStrs(l[1]), Defaults: cfgOptsFromV(l[2])}
	for _, s := range rList(l[3]) {
		sl := rList(s)
		name := strings.TrimPrefix(rStr(rList(sl[0])[0]), cfgPkg+".")
		for i, u := range cfgUniverse {
			if u.Name == name {
				c.Services = append(c.Services, cfgService{Svc: i, Opts: cfgOptsFromV(sl[1])})
			}
		}
	}
	for _, r := range rList(l[4]) {
		c.Rules = append(c.Rules, cfgRuleFromV(r))
	}
	return c
}
