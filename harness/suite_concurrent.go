package main

import (
	"fmt"
	"io"
	"net/http"
	"strconv"
	"strings"
	"sync"

	"connectrpc.com/vanguard"
)

// idBackend dispatches to a per-exchange scripted backend by the X-Verif-Id application header
type idBackend struct {
	mu       sync.Mutex
	handlers map[string]http.Handler
}

func (b *idBackend) ServeHTTP(w http.ResponseWriter, r *http.Request) {
	b.mu.Lock()
	h := b.handlers[r.Header.Get("X-Verif-Id")]
	b.mu.Unlock()
	if h == nil {
		http.Error(w, "no script", 500)
		return
	}
	h.ServeHTTP(w, r)
}

func runBatch(tc http.Handler, ib *idBackend, batch []exchange, concurrent bool) []L {
	outs := make([]L, len(batch))
	results := make([]scenarioResult, len(batch))
	ib.mu.Lock()
	ib.handlers = map[string]http.Handler{}
	for i := range batch {
		ib.handlers[strconv.Itoa(i)] = scriptedBackend(&results[i].Backend, batch[i].script)
	}
	ib.mu.Unlock()
	run := func(i int) {
		req := batch[i].req
		req.Headers = append(append([][2]string(nil), req.Headers...), [2]string{"X-Verif-Id", strconv.Itoa(i)})
		results[i] = runOn(tc, req, &results[i])
		view := decodeClient(batch[i].form, results[i].Rec)
		known := map[string]bool{"": true, "failed": true}
		outs[i] = L{view.value(false, nil, known), int64(results[i].Backend.Calls), Bb(results[i].Backend.body()), B(results[i].Backend.lastReadErr())}
	}
	if !concurrent {
		for i := range batch {
			run(i)
		}
		return outs
	}
	var wg sync.WaitGroup
	start := make(chan struct{})
	canaryInRunOn = false
	defer func() {
		canaryInRunOn = true
		if n := vanguard.VerifPoolCheckReleased(); n > 0 {
			lateWrites = append(lateWrites, fmt.Sprintf("%d pooled buffer(s) were written to after their release during a concurrent batch", n))
		}
	}()
	for i := range batch {
		wg.Add(1)
		go func(i int) {
			defer wg.Done()
			<-start
			run(i)
		}(i)
	}
	close(start)
	wg.Wait()
	return outs
}

// duplexBackend reads the request in one goroutine while writing the response in another
func duplexBackend(payloads [][]byte) http.Handler {
	return http.HandlerFunc(func(w http.ResponseWriter, r *http.Request) {
		done := make(chan struct{})
		var readErr error
		go func() {
			defer close(done)
			buf := make([]byte, 64)
			for {
				if _, err := r.Body.Read(buf); err != nil {
					readErr = err
					return
				}
			}
		}()
		w.Header().Set("Content-Type", "application/grpc")
		w.WriteHeader(200)
		for _, p := range payloads {
			if _, err := w.Write(envelope(0, p)); err != nil {
				break
			}
			if f, ok := w.(http.Flusher); ok {
				f.Flush()
			}
		}
		<-done
		if readErr != io.EOF {
			// like any real handler: a request stream that failed is not answered with OK
			w.Header().Set(http.TrailerPrefix+"Grpc-Status", "13")
			w.Header().Set(http.TrailerPrefix+"Grpc-Message", "request stream failed")
			return
		}
		w.Header().Set(http.TrailerPrefix+"Grpc-Status", "0")
	})
}

type concurrentRun struct {
	batch      []exchange
	conc, solo []L
	trace      L
	desc       string
}

// runConcurrentBatch: n exchanges derived from the seed, served at the same time by one transcoder and
// one after the other by another
func runConcurrentBatch(seed int64) concurrentRun {
	r := &rng{s: uint64(seed)}
	n := pick(r, []int{2, 4, 8, 16, 32})
	hc := genHistConf(r)
	cb := concurrentRun{batch: make([]exchange, n)}
	var order []string
	for i := range cb.batch {
		cb.batch[i] = genExchange(r, hc, r.chance(1, 2))
		order = append(order, fmt.Sprintf("%s(%s)", cb.batch[i].kind, formNames[cb.batch[i].form]))
	}
	ibShared, ibSolo := &idBackend{}, &idBackend{}
	shared := historyTranscoder(ibShared, hc)
	pw, stop := watchPool()
	cb.conc = runBatch(shared, ibShared, cb.batch, true)
	cb.trace = poolTraceV(pw)
	stop()
	cb.solo = runBatch(historyTranscoder(ibSolo, hc), ibSolo, cb.batch, false)
	cb.desc = fmt.Sprintf("backend %s/%s; concurrently: %s", hc.target, hc.codec, strings.Join(order, ", "))
	return cb
}

func init() {
	replayers["concurrent.solo"] = func(in any) any {
		l := rList(in)
		vanguard.VerifPoolPoison.Store(true)
		if rInt(l[0]) < 0 {
			return runDuplex(rInt(l[1]))
		}
		cb := runConcurrentBatch(rInt(l[0]))
		return L{cb.conc[rInt(l[1])], cb.solo[rInt(l[1])]}
	}
	// C14: N concurrent RPCs of mixed kinds on one transcoder; each must look exactly as when run alone.
	// Pooled buffers are poisoned on release, so any use after release corrupts visibly.
	suites["concurrent"] = func(c *ctx) {
		r := c.r
		vanguard.VerifPoolPoison.Store(true)
		for b := 0; b < c.n/16+1; b++ {
			seed := int64(r.next() >> 2)
			cb := runConcurrentBatch(seed)
			for i := range cb.batch {
				c.emit(Case{Suite: "concurrent.solo", In: L{seed, int64(i)}, Out: L{cb.conc[i], cb.solo[i]},
					Tags: []string{fmt.Sprintf("concurrent.n:%d", len(cb.batch)), "concurrent:" + cb.batch[i].kind}, Desc: cb.desc})
			}
			c.emit(Case{Suite: "pool.trace", In: L{B("concurrent"), seed}, Out: cb.trace, Tags: []string{"pool.trace:concurrent"}, Desc: cb.desc})
		}
		// forced schedules: one RPC in trouble while another one holds what it released
		interleaveCases(c, c.n/4+4)
		// full-duplex streams: request side and response side driven from different goroutines, with
		// request-side faults while the response side is active
		for b := 0; b < c.n/40+1; b++ {
			seed := int64(r.next() >> 2)
			out, fault := runDuplexT(seed)
			c.emit(Case{Suite: "concurrent.solo", In: L{int64(-1), seed, B(fault)}, Out: out, Tags: []string{"concurrent:duplex", "concurrent.duplex:" + fault}})
		}
		_ = io.EOF
	}
}

func runDuplex(seed int64) L { out, _ := runDuplexT(seed); return out }

// runDuplexT: a full-duplex stream with a request-side fault, run twice
func runDuplexT(seed int64) (L, string) {
	r := &rng{s: uint64(seed)}
	spec := subscribeSpec(pick(r, []int{formConnectStream, formGRPCWeb}), "json", "", 3)
	req := spec.build()
	var body []byte
	for _, ch := range req.Chunks {
		body = append(body, ch...)
	}
	fault := "none"
	switch r.intn(3) {
	case 1:
		body = append(body[:len(body):len(body)], 0x07, 0, 0, 0, 1, 'x') // illegal flag after valid messages
		fault = "badflag"
	case 2:
		body = body[:len(body)-2]
		fault = "cut"
	}
	req.Chunks = splitChunks(r, body, 2)
	var outs [2]L
	for k := 0; k < 2; k++ {
		tc := historyTranscoder(duplexBackend([][]byte{{0x0a, 0x01, 'a'}, {0x0a, 0x01, 'b'}, {0x0a, 0x01, 'c'}}), histConf{vanguard.ProtocolGRPC, "proto"})
		var res scenarioResult
		res = runOn(tc, req, &res)
		view := decodeClient(spec.Form, res.Rec)
		// the interleaving of the two goroutines legitimately decides how many messages got out before
		// the fault was reported: compare the outcome only
		code := int64(0)
		for _, e := range view.Ends {
			code = e.Code
		}
		outs[k] = L{int64(view.Heads), code != 0, res.Panic != "", view.Framing == ""}
	}
	return L{outs[0], outs[1]}, fault
}
