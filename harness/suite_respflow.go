package main

import (
	"encoding/base64"
	"encoding/binary"
	"encoding/json"
	"fmt"
	"sort"
	"strconv"
	"strings"

	"connectrpc.com/vanguard"
	testv1 "connectrpc.com/vanguard/internal/gen/vanguard/test/v1"
	"google.golang.org/genproto/googleapis/rpc/status"
	"google.golang.org/protobuf/proto"
	"google.golang.org/protobuf/types/known/anypb"
	"google.golang.org/protobuf/types/known/durationpb"
)

// backendResp is a spec-level description of what a backend of the target protocol answers.
type backendResp struct {
	Target    vanguard.Protocol
	Streaming bool
	Codec     string
	Comp      string // "" | gzip | identity | unknown name
	Msgs      [][]byte
	Flags     []bool
	ErrCode   int64
	ErrMsg    string
	Details   []proto.Message
	Trailers  [][2]string
	Headers   [][2]string
	// variations
	TrailersOnly bool
	BareStatus   int
	DeclareCL    bool
	DeclTrailers bool // declare trailers with the Trailer header instead of the TrailerPrefix
	Split        int  // 0 one write, 1 per frame, 2 random pieces
	WrongCT      string
	Cut          int // >0: drop that many bytes from the end of the body
	CutMode      int // 1: the last frame keeps only its envelope, 2: the cut falls inside the last frame's envelope
	BareBody     int // variations of the body of a bare HTTP failure
	DeclLower    bool   // declared trailer names in lower case
	Junk         []byte // bytes after the end-of-stream frame, in the same write
	cutOut       *int   // where script reports the cut it applied
	BadEnd       int    // 1: end-of-stream frame that cannot be parsed, 2: flagged compressed but is not
}

func envelopedResp(b backendResp) bool {
	return b.BareStatus == 0 && !(b.Target == vanguard.ProtocolConnect && !b.Streaming)
}

func (b backendResp) badEndEffective() bool {
	if b.BadEnd == 2 && b.Comp != "gzip" {
		// a compressed flag without a declared compression is read as "not compressed", as for data messages
		return false
	}
	return b.BadEnd != 0 && b.BareStatus == 0 &&
		((b.Target == vanguard.ProtocolGRPCWeb && !b.TrailersOnly) || (b.Target == vanguard.ProtocolConnect && b.Streaming))
}

func percentEncode(s string) string {
	var sb strings.Builder
	for i := 0; i < len(s); i++ {
		c := s[i]
		if c < ' ' || c > '~' || c == '%' {
			fmt.Fprintf(&sb, "%%%02X", c)
		} else {
			sb.WriteByte(c)
		}
	}
	return sb.String()
}

func (b backendResp) statusProto() *status.Status {
	st := &status.Status{Code: int32(b.ErrCode), Message: b.ErrMsg}
	for _, d := range b.Details {
		a, _ := anypb.New(d)
		st.Details = append(st.Details, a)
	}
	return st
}

var connectCodeStrings = func() map[int64]string {
	m := map[int64]string{}
	for k, v := range connectCodeNames {
		m[v] = k
	}
	return m
}()

func (b backendResp) connectErrJSON() map[string]any {
	name, ok := connectCodeStrings[b.ErrCode]
	if !ok {
		name = "code_" + strconv.FormatInt(b.ErrCode, 10)
	}
	e := map[string]any{"code": name}
	if b.ErrMsg != "" {
		e["message"] = b.ErrMsg
	}
	var det []map[string]any
	for _, d := range b.Details {
		a, _ := anypb.New(d)
		det = append(det, map[string]any{"type": typeName(a.GetTypeUrl()), "value": base64.RawStdEncoding.EncodeToString(a.GetValue())})
	}
	if det != nil {
		e["details"] = det
	}
	return e
}

var connectStatusOf = map[int64]int{1: 499, 2: 500, 3: 400, 4: 504, 5: 404, 6: 409, 7: 403, 8: 429, 9: 400, 10: 409, 11: 400, 12: 501, 13: 500, 14: 503, 15: 500, 16: 401}

// script renders the response as handler actions; tables learns what the library oracles
// answer on the payloads involved
func (b backendResp) script(r *rng, et *endTables) []action {
	var acts []action
	for _, h := range b.Headers {
		acts = append(acts, action{Op: "hadd", Key: h[0], Val: h[1]})
	}
	payload := func(i int) ([]byte, byte) {
		p := b.Msgs[i]
		if b.Comp == "gzip" && (i >= len(b.Flags) || b.Flags[i]) {
			return gzipBytes(p), 1
		}
		return p, 0
	}
	var frames [][]byte
	var trailerActs []action
	setTrailer := func(k, v string) {
		if b.DeclTrailers {
			trailerActs = append(trailerActs, action{Op: "hadd", Key: k, Val: v})
		} else {
			trailerActs = append(trailerActs, action{Op: "hadd", Key: "Trailer:" + k, Val: v})
		}
	}
	status := 200
	if b.BareStatus != 0 {
		status = b.BareStatus
	}
	ct := ""
	switch {
	case b.Target == vanguard.ProtocolGRPC || b.Target == vanguard.ProtocolGRPCWeb:
		ct = "application/grpc"
		if b.Target == vanguard.ProtocolGRPCWeb {
			ct = "application/grpc-web"
		}
		if b.Codec != "proto" || len(b.Msgs)%2 == 1 {
			ct += "+" + b.Codec
		}
		if b.Comp != "" {
			acts = append(acts, action{Op: "hset", Key: "Grpc-Encoding", Val: b.Comp})
		}
		for i := range b.Msgs {
			p, f := payload(i)
			frames = append(frames, envelope(f, p))
		}
		endKV := [][2]string{{"Grpc-Status", strconv.FormatInt(b.ErrCode, 10)}}
		if b.ErrCode != 0 {
			endKV = append(endKV, [2]string{"Grpc-Message", percentEncode(b.ErrMsg)})
			if len(b.Details) > 0 {
				bin, _ := proto.Marshal(b.statusProto())
				b64 := base64.RawStdEncoding.EncodeToString(bin)
				endKV = append(endKV, [2]string{"Grpc-Status-Details-Bin", b64})
				c, m, d, _ := decodeStatusBin(b64)
				et.statusBin[b64] = L{c, B(m), detailsV(d)}
			}
		}
		endKV = append(endKV, b.Trailers...)
		switch {
		case b.BareStatus != 0:
			// bare HTTP failure: no grpc keys at all
		case b.TrailersOnly:
			for _, kv := range endKV {
				acts = append(acts, action{Op: "hadd", Key: kv[0], Val: kv[1]})
			}
			frames = nil
		case b.Target == vanguard.ProtocolGRPCWeb:
			var sb strings.Builder
			for _, kv := range endKV {
				sb.WriteString(strings.ToLower(kv[0]) + ": " + kv[1] + "\r\n")
			}
			switch {
			case b.BadEnd == 1:
				frames = append(frames, envelope(0x80, []byte("grpc-status "+strconv.FormatInt(b.ErrCode, 10)+"\r\n")))
			case b.BadEnd == 2:
				frames = append(frames, envelope(0x81, []byte(sb.String())))
			default:
				frames = append(frames, envelope(0x80, []byte(sb.String())))
			}
		default:
			if b.DeclTrailers {
				var names []string
				for _, kv := range endKV {
					names = append(names, kv[0])
				}
				decl := strings.Join(names, ", ")
				if b.DeclLower {
					decl = strings.ToLower(decl)
				}
				acts = append(acts, action{Op: "hset", Key: "Trailer", Val: decl})
			}
			for _, kv := range endKV {
				setTrailer(kv[0], kv[1])
			}
		}
	case b.Target == vanguard.ProtocolConnect && b.Streaming:
		ct = "application/connect+" + b.Codec
		if b.Comp != "" {
			acts = append(acts, action{Op: "hset", Key: "Connect-Content-Encoding", Val: b.Comp})
		}
		for i := range b.Msgs {
			p, f := payload(i)
			frames = append(frames, envelope(f, p))
		}
		if b.BareStatus == 0 {
			end := map[string]any{}
			if b.ErrCode != 0 {
				end["error"] = b.connectErrJSON()
			}
			md := map[string][]string{}
			for _, kv := range b.Trailers {
				md[kv[0]] = append(md[kv[0]], kv[1])
			}
			if len(md) > 0 {
				end["metadata"] = md
			}
			data, _ := json.Marshal(end)
			switch {
			case b.BadEnd == 1:
				data = append([]byte("{"), data...)
				frames = append(frames, envelope(2, data))
			case b.BadEnd == 2:
				frames = append(frames, envelope(3, data))
			default:
				frames = append(frames, envelope(2, data))
			}
			var errV any = L{}
			if b.ErrCode != 0 {
				errV = L{b.errValue()}
			}
			mdv := L{}
			keys := make([]string, 0, len(md))
			for k := range md {
				keys = append(keys, k)
			}
			sort.Strings(keys)
			for _, k := range keys {
				mdv = append(mdv, L{B(k), Bl(md[k])})
			}
			if b.BadEnd != 1 {
				et.connectEnd[string(data)] = L{errV, mdv}
			}
		}
	default: // Connect unary
		ct = "application/" + b.Codec
		for _, kv := range b.Trailers {
			acts = append(acts, action{Op: "hadd", Key: "Trailer-" + kv[0], Val: kv[1]})
		}
		if b.BareStatus != 0 {
			frames = [][]byte{[]byte("upstream failure")}
			ct = "text/plain"
			switch b.BareBody {
			case 1: // no body at all
				frames = nil
			case 2: // JSON that is not a Connect error
				frames = [][]byte{[]byte(`{"status":"down"}`)}
				ct = "application/json"
			case 3:
				frames = [][]byte{[]byte(`<html>Bad Gateway</html>`)}
				ct = "text/html"
			}
		} else if b.ErrCode != 0 {
			status = connectStatusOf[b.ErrCode]
			if status == 0 {
				status = 500
			}
			ct = "application/json"
			data, _ := json.Marshal(b.connectErrJSON())
			frames = [][]byte{data}
			et.connectErr[string(data)] = b.errValue()
		} else {
			if b.Comp != "" {
				acts = append(acts, action{Op: "hset", Key: "Content-Encoding", Val: b.Comp})
			}
			if len(b.Msgs) > 0 {
				p := b.Msgs[0]
				if b.Comp == "gzip" { // no per-message flag without envelopes: the declared encoding applies
					p = gzipBytes(p)
				}
				frames = [][]byte{p}
			}
		}
	}
	if b.WrongCT != "" {
		ct = b.WrongCT
	}
	if ct != "" {
		acts = append(acts, action{Op: "hset", Key: "Content-Type", Val: ct})
	}
	if len(b.Junk) > 0 && len(frames) > 0 && (b.Target == vanguard.ProtocolGRPCWeb || (b.Target == vanguard.ProtocolConnect && b.Streaming)) && b.BareStatus == 0 && !b.TrailersOnly {
		frames[len(frames)-1] = append(append([]byte(nil), frames[len(frames)-1]...), b.Junk...)
	}
	var body []byte
	for _, f := range frames {
		body = append(body, f...)
	}
	if b.CutMode > 0 && len(frames) > 0 && envelopedResp(b) {
		if last := frames[len(frames)-1]; len(last) > 5 {
			b.Cut = len(last) - 5
			if b.CutMode == 2 {
				b.Cut += 1 + len(last)%4
			}
		}
	}
	if b.cutOut != nil {
		*b.cutOut = b.Cut
	}
	if b.Cut > 0 && b.Cut < len(body) {
		body = body[:len(body)-b.Cut]
		frames = [][]byte{body}
	}
	if b.DeclareCL {
		acts = append(acts, action{Op: "hset", Key: "Content-Length", Val: strconv.Itoa(len(body))})
	}
	acts = append(acts, action{Op: "status", N: status})
	switch b.Split {
	case 0:
		if len(body) > 0 {
			acts = append(acts, action{Op: "write", Data: body})
		}
	case 1:
		for _, f := range frames {
			acts = append(acts, action{Op: "write", Data: f}, action{Op: "flush"})
		}
	case 3:
		for k := range body {
			acts = append(acts, action{Op: "write", Data: body[k : k+1]})
		}
	default:
		for _, c := range splitChunks(r, body, 2) {
			acts = append(acts, action{Op: "write", Data: c})
			if r.chance(1, 4) {
				acts = append(acts, action{Op: "flush"})
			}
		}
	}
	acts = append(acts, trailerActs...)
	return acts
}

func detailsV(d [][2][]byte) L {
	out := L{}
	for _, x := range d {
		out = append(out, L{Bb(x[0]), Bb(x[1])})
	}
	return out
}

func (b backendResp) errValue() L {
	var d [][2][]byte
	for _, m := range b.Details {
		a, _ := anypb.New(m)
		d = append(d, [2][]byte{[]byte(typeName(a.GetTypeUrl())), a.GetValue()})
	}
	return L{b.ErrCode, B(b.ErrMsg), detailsV(d)}
}

type endTables struct {
	statusBin, connectErr, connectEnd, restErr map[string]L
}

func newEndTables() *endTables {
	return &endTables{map[string]L{}, map[string]L{}, map[string]L{}, map[string]L{}}
}
func tblV(m map[string]L) L {
	keys := make([]string, 0, len(m))
	for k := range m {
		keys = append(keys, k)
	}
	sort.Strings(keys)
	out := L{}
	for _, k := range keys {
		out = append(out, L{Bb([]byte(k)), L{m[k]}})
	}
	return out
}
func (e *endTables) value() L {
	return L{tblV(e.statusBin), tblV(e.connectErr), tblV(e.connectEnd), tblV(e.restErr)}
}

func scriptV(acts []action) L {
	out := L{}
	for _, a := range acts {
		switch a.Op {
		case "hadd", "hset":
			out = append(out, L{B(a.Op), B(canonicalKeepPrefix(a.Key)), B(a.Val)})
		case "status":
			out = append(out, L{B("status"), int64(a.N)})
		case "write":
			out = append(out, L{B("write"), Bb(a.Data)})
		case "flush":
			out = append(out, L{B("flush")})
		case "readfault":
			out = append(out, L{B("readfault"), int64(a.N)})
		}
	}
	return out
}

// http.Header.Add canonicalises; keys with the "Trailer:" prefix keep it
func canonicalKeepPrefix(k string) string {
	if strings.HasPrefix(k, "Trailer:") {
		return "Trailer:" + canonical(k[len("Trailer:"):])
	}
	return canonical(k)
}

var respErrMessages = []string{"", "boom", "café not found", "100% wrong", "line1\nline2", "a \"quoted\" <msg> & more", "日本語"}
var respTrailerSets = [][][2]string{nil, {{"X-Trail", "t1"}}, {{"X-Trail", "t1"}, {"X-Trail", "t2"}, {"X-Bin-Bin", "AAEC"}}, {{"Grpc-Foo", "x"}, {"Connect-Foo", "y"}}}
var respHeaderSets = [][][2]string{nil, {{"X-Resp", "h1"}}, {{"X-Resp", "h1"}, {"X-Resp", "h2"}, {"Set-Cookie", "a=b"}}, {{"Trailer-Fake", "app"}, {"X-Bin-Bin", "AAEC"}}}

// respCase is one generated response scenario; run renders it under a write segmentation
type respCase struct {
	cfg                      e2eConfig
	form                     int
	target                   vanguard.Protocol
	streaming                bool
	req                      clientReq
	in2                      L
	b                        backendResp
	tables                   *oracleTables
	lim                      int64
	tag                      string
	seed                     uint64
	newResp                  func() proto.Message
	msgIDs                   L
	serverCodec, clientCodec string
	readFault                bool // the handler reads the (faulty) request somewhere while it responds
	readFaultClass           int64
}

// respReadFaults enables scenarios in which the request side fails while the response is under way
var respReadFaults bool

func genResp(r *rng, limits []uint32) *respCase {
	forms := []int{formConnectPost, formConnectGet, formConnectStream, formGRPC, formGRPCWeb}
	targets := []vanguard.Protocol{vanguard.ProtocolConnect, vanguard.ProtocolGRPC, vanguard.ProtocolGRPCWeb}
	form := pick(r, forms)
	streaming := form == formConnectStream || ((form == formGRPC || form == formGRPCWeb) && r.chance(1, 2))
	target := pick(r, targets)
	clientCodec := pick(r, []string{"proto", "json"})
	sameCodec := r.chance(1, 2)
	serverCodec := clientCodec
	if !sameCodec {
		serverCodec = map[string]string{"proto": "json", "json": "proto"}[clientCodec]
	}
	limit := pick(r, limits)
	cfg := e2eConfig{Service: libraryService, Protocols: []vanguard.Protocol{target}, Codecs: []string{serverCodec}, MaxMsg: limit}
	var spec clientSpec
	newResp := methGetBook.NewResp
	if streaming {
		cfg.Service = contentService
		spec = subscribeSpec(form, clientCodec, "", 1)
		newResp = methSubscribe.NewResp
	} else {
		spec = getBookSpec(form, clientCodec, "", bookName("s", "b"))
	}
	if formProtocol(form) == target && sameCodec {
		return nil // pass-through: no response adapter
	}
	req := spec.build()
	readFault := respReadFaults && (formEnveloped(form) || (form == formConnectPost && !sameCodec)) && r.chance(1, 6)
	faultClass := int64(3)
	if readFault {
		if formEnveloped(form) {
			// after the valid request messages: an envelope with an illegal flag byte
			req.Chunks = append(req.Chunks[:len(req.Chunks):len(req.Chunks)], []byte{7, 0, 0, 0, 1, 'x'})
		} else {
			// a unary body the client's codec cannot decode: the failure surfaces when the handler reads
			garbage := []byte(`{"name": nonsense`)
			if clientCodec == "proto" {
				garbage = []byte{0x0a, 0xff, 0xff, 0xff}
			}
			req.Chunks = [][]byte{garbage}
			faultClass = 2
		}
	}
	in2, ok := creqV(req)
	if !ok {
		return nil
	}
	b := backendResp{Target: target, Streaming: streaming, Codec: serverCodec, Comp: pick(r, []string{"", "", "gzip", "identity"}),
		Trailers: pick(r, respTrailerSets), Headers: pick(r, respHeaderSets), Split: r.intn(3), DeclTrailers: r.chance(1, 3)}
	if b.DeclTrailers {
		// the same key as response header and as declared trailer is inherently ambiguous
		hk := map[string]bool{}
		for _, h := range b.Headers {
			hk[h[0]] = true
		}
		for _, t := range b.Trailers {
			if hk[t[0]] {
				b.DeclTrailers = false
			}
		}
	}
	nmsgs := 1
	if streaming {
		nmsgs = r.intn(4)
	}
	tables := newTables()
	msgIDs := L{}
	lim := int64(limit)
	if lim == 0 {
		lim = 4294967295
	}
	for m := 0; m < nmsgs; m++ {
		var msg proto.Message
		size := pick(r, []int{0, 1, 5, 20, 60})
		if streaming {
			msg = &testv1.SubscribeResponse{FilenameChanged: strings.Repeat("f", size)}
		} else {
			msg = &testv1.Book{Name: strings.Repeat("n", size)}
		}
		plain, _ := vgCodec(serverCodec).MarshalAppend(nil, msg)
		b.Msgs = append(b.Msgs, plain)
		b.Flags = append(b.Flags, r.chance(2, 3))
		msgIDs = append(msgIDs, L{true, Bb(canon(msg))})
		p := plain
		if b.Comp == "gzip" && (b.Flags[m] || (target == vanguard.ProtocolConnect && !streaming)) {
			p = gzipBytes(plain)
		}
		tables.learn(p, newResp, serverCodec, clientCodec, lim)
	}
	tag := "success"
	switch r.intn(10) {
	case 0, 1, 2:
		b.ErrCode = int64(1 + r.intn(16))
		b.ErrMsg = pick(r, respErrMessages)
		if r.chance(1, 2) {
			b.Details = []proto.Message{durationpb.New(1500000000)}
			if r.chance(1, 3) {
				b.Details = append(b.Details, &testv1.Book{Name: "detail"})
			}
		}
		tag = "error"
		if r.chance(1, 2) {
			b.TrailersOnly = true
			b.Msgs, b.Flags = nil, nil
			msgIDs = L{}
			tag = "error-trailers-only"
		}
	case 3:
		b.ErrCode = pick(r, []int64{17, 18, 100, 4294967295})
		b.ErrMsg = "odd code"
		tag = "error-oddcode"
	case 4:
		b.BareStatus = pick(r, []int{400, 401, 403, 404, 429, 500, 502, 503, 504, 418, 204, 301})
		b.BareBody = r.intn(4)
		tag = "bare-http"
	}
	switch r.intn(12) {
	case 0:
		b.DeclareCL = true
		tag += "+cl"
	case 1:
		b.WrongCT = pick(r, []string{"text/plain", "application/xml", "", "application/grpc+thrift"})
		tag += "+wrongct"
	case 2:
		b.Comp = "br"
		tag += "+unknowncomp"
	case 3:
		b.Cut = 1 + r.intn(6)
		if r.chance(1, 3) {
			b.CutMode = 1 + r.intn(2)
		}
		tag += "+cut"
	case 4:
		b.Junk = pick(r, [][]byte{{0}, []byte("junk after the end"), {0, 0, 0, 0, 1, 'x'}})
		tag += "+junk"
	case 6:
		// an envelope's worth of bytes missing at the end: the states "nothing of the next envelope
		// yet" and "five bytes of payload missing" must not be confused
		b.Cut = 5
		tag += "+cut"
	case 5:
		b.BadEnd = 1 + r.intn(2)
		if b.badEndEffective() {
			tag += "+badend"
		}
	}
	if b.DeclTrailers && r.chance(1, 2) {
		b.DeclLower = true
	}
	return &respCase{cfg: cfg, form: form, target: target, streaming: streaming, req: req, in2: in2, b: b, tables: tables, lim: lim, tag: tag, seed: r.next(),
		newResp: newResp, serverCodec: serverCodec, clientCodec: clientCodec, msgIDs: msgIDs, readFault: readFault, readFaultClass: faultClass}
}

// run executes the scenario with the given write segmentation (-1: as generated)
func (rc *respCase) run(split int) (in L, out L, view clientView, res scenarioResult, ok bool) {
	b := rc.b
	if split >= 0 {
		b.Split = split
	}
	form, target, streaming, lim := rc.form, rc.target, rc.streaming, rc.lim
	r := &rng{s: rc.seed + uint64(b.Split)*977}
	et := newEndTables()
	cutEffective := 0
	if b.Cut > 0 {
		probe := b
		probe.Cut, probe.CutMode = 0, 0
		full := 0
		for _, a := range probe.script(&rng{s: 1}, newEndTables()) {
			if a.Op == "write" {
				full += len(a.Data)
			}
		}
		applied := 0
		probe = b
		probe.cutOut = &applied
		probe.script(&rng{s: 1}, newEndTables())
		if applied < full {
			cutEffective = applied
		}
	}
	script := b.script(r, et)
	if rc.readFault {
		at := (&rng{s: rc.seed}).intn(len(script) + 1)
		script = append(append(append([]action(nil), script[:at]...), action{Op: "readfault", N: int(rc.readFaultClass)}), script[at:]...)
	}
	res = runScenario(rc.cfg, rc.req, script, nil)
	if res.BuildErr != "" {
		panic(res.BuildErr)
	}
	if res.Backend.Calls != 1 {
		return nil, nil, view, res, false
	}
	known := map[string]bool{"": true, b.ErrMsg: true}
	view = decodeClient(form, res.Rec)
	out = view.value(res.Panic != "", res.Backend.Writes, known)
	// oracle "the JSON end-stream message is larger than the limit": known only from the
	// substitute message the transcoder then sends
	endLen := int64(0)
	for _, e := range view.Ends {
		if e.Place == 1 && e.Code == 8 && e.Msg == "end of stream message exceeds max buffer size" {
			endLen = lim + 1
		}
	}
	// the backend's intent, for the monitors
	var body []byte
	for _, a := range script {
		if a.Op == "write" {
			body = append(body, a.Data...)
		}
	}
	envelopedTarget := !(target == vanguard.ProtocolConnect && !streaming)
	if !envelopedTarget && b.BareStatus == 0 && b.ErrCode == 0 {
		// whatever the body ended up as (e.g. after a cut) is the one message
		rc.tables.learn(body, rc.newResp, rc.serverCodec, rc.clientCodec, lim)
	}
	lenient := false
	boundaryCut := false
	if cutEffective > 0 && !envelopedTarget {
		// a shorter body from a backend without message framing is only detectable if it has
		// to be decoded: either outcome is acceptable
		lenient = true
	}
	if cutEffective > 0 && envelopedTarget && checkFrames(body) == "" {
		// cut exactly at a frame boundary: a well-formed shorter stream
		cutEffective = 0
		boundaryCut = true
		if b.Target != vanguard.ProtocolGRPC {
			lenient = true // the end frame itself may have been cut off
		}
	}
	if rc.readFault {
		lenient = true // the outcome depends on where the request-side failure lands
	}
	if rc.tables.oversize || endLen > 0 {
		lenient = true // the size limit may legitimately turn the outcome into resource_exhausted
	}
	if !envelopedTarget && int64(len(body)) > lim {
		lenient = true // (also for error bodies)
	}
	if envelopedTarget {
		for rest := body; len(rest) >= 5; {
			n := int(binary.BigEndian.Uint32(rest[1:5]))
			if int64(n) > lim {
				lenient = true // (also for end-of-stream frames)
			}
			if len(rest) < 5+n {
				break
			}
			rest = rest[5+n:]
		}
	}
	wellformed := b.WrongCT == "" && (b.Comp == "" || b.Comp == "gzip" || b.Comp == "identity") && cutEffective == 0 && !b.badEndEffective() &&
		b.ErrCode >= 0 && b.ErrCode <= 16
	if b.BareStatus/100 == 2 && b.BareStatus != 200 {
		wellformed = false // a 2xx other than 200 is not a defined outcome of the RPC protocols
	}
	kind := int64(0)
	if b.BareStatus != 0 {
		kind = 2
	} else if b.ErrCode != 0 {
		kind = 1
	}
	hdrOf := func(kvs [][2]string) L {
		h := map[string][]string{}
		var order []string
		for _, kv := range kvs {
			k := canonical(kv[0])
			if _, ok := h[k]; !ok {
				order = append(order, k)
			}
			h[k] = append(h[k], kv[1])
		}
		out := L{}
		for _, k := range order {
			out = append(out, L{B(k), Bl(h[k])})
		}
		return out
	}
	trailers := b.Trailers
	if kind == 2 {
		trailers = nil
	}
	// C16: message-by-message progress. After each handler Write: how many complete backend data
	// frames it has written so far, and how many complete frames the client can already see.
	progress := L{}
	if envelopedTarget && formEnveloped(form) && b.BareStatus == 0 && len(b.Junk) == 0 && !b.TrailersOnly {
		written := 0
		wi := 0
		for _, a := range script {
			if a.Op != "write" {
				continue
			}
			written += len(a.Data)
			if wi < len(res.Backend.Visible) {
				dataFrames := countDataFrames(body[:min(written, len(body))], target)
				visible := countFrames(res.Rec.body()[:min(res.Backend.Visible[wi], len(res.Rec.body()))])
				progress = append(progress, L{int64(dataFrames), int64(visible)})
			}
			wi++
		}
	}
	// the messages the backend actually finished: after a cut at a frame boundary fewer than it meant to send
	ids := rc.msgIDs
	if boundaryCut {
		if n := countDataFrames(body, target); n < len(ids) {
			ids = ids[:n]
		}
	}
	intent := L{int64(form), wellformed, kind, b.ErrCode, B(b.ErrMsg), b.errValue()[2], hdrOf(trailers), hdrOf(b.Headers),
		target == vanguard.ProtocolConnect && !streaming, int64(b.BareStatus), b.TrailersOnly, lenient, ids, progress}
	in = L{tconfV(rc.cfg), rc.in2, scriptV(script), rc.tables.value(), et.value(), endLen, intent}
	return in, out, view, res, true
}

func (rc *respCase) tags(view clientView, res scenarioResult) []string {
	pairing := fmt.Sprintf("%s<%s", formNames[rc.form], rc.target)
	tags := []string{"respflow:" + rc.tag, "respflow.pair:" + pairing}
	if rc.readFault {
		tags = append(tags, "respflow:readfault")
	}
	if view.Framing != "" {
		tags = append(tags, "respflow.framing:"+view.Framing)
	}
	if res.Panic != "" {
		tags = append(tags, "respflow.panic")
	}
	return tags
}

func init() {
	suites["respflow"] = func(c *ctx) {
		respReadFaults = true
		defer func() { respReadFaults = false }()
		for i := 0; i < c.n; i++ {
			rc := genResp(c.r, []uint32{0, 0, 4096})
			if rc == nil {
				continue
			}
			in, out, view, res, ok := rc.run(-1)
			if !ok {
				continue
			}
			c.emit(Case{Suite: "serve.response", In: in, Out: out, Tags: rc.tags(view, res), Desc: res.Panic + stackSummary(res.PanicStack)})
		}
	}
	// the same backend response under four write segmentations (one write, one write per frame with
	// flushes, random pieces, single bytes), with limits close to the message sizes: every run must
	// agree with the model, and all four must give the client the same response (C08)
	suites["segments"] = func(c *ctx) {
		for i := 0; i < c.n/4; i++ {
			rc := genResp(c.r, []uint32{0, 4096, 128, 60, 30})
			if rc == nil {
				continue
			}
			var views L
			okAll := true
			for split := 0; split < 4; split++ {
				in, out, view, res, ok := rc.run(split)
				if !ok {
					okAll = false
					break
				}
				tags := append(rc.tags(view, res), fmt.Sprintf("segments.split:%d", split))
				c.emit(Case{Suite: "serve.response", In: in, Out: out, Tags: tags, Desc: res.Panic + stackSummary(res.PanicStack)})
				// the client's view without the per-Write results (their number depends on the segmentation)
				views = append(views, out[:6])
			}
			if okAll {
				c.emit(Case{Suite: "segments.meta", In: L{int64(rc.form), int64(rc.lim)}, Out: views, Tags: []string{"segments:" + rc.tag}})
			}
		}
	}
}

func stackSummary(st string) string {
	var out []string
	for _, l := range strings.Split(st, "\n") {
		if strings.Contains(l, "/repo/") {
			out = append(out, strings.TrimSpace(l))
		}
	}
	if len(out) > 4 {
		out = out[:4]
	}
	if len(out) == 0 {
		return ""
	}
	return " @ " + strings.Join(out, " <- ")
}

// countFrames: complete envelopes in a prefix of an enveloped stream
func countFrames(b []byte) int {
	n := 0
	for len(b) >= 5 {
		l := int(binary.BigEndian.Uint32(b[1:5]))
		if len(b) < 5+l {
			break
		}
		n++
		b = b[5+l:]
	}
	return n
}

// countDataFrames: complete data (non end-of-stream) envelopes in a prefix of a backend stream
func countDataFrames(b []byte, target vanguard.Protocol) int {
	n := 0
	for len(b) >= 5 {
		l := int(binary.BigEndian.Uint32(b[1:5]))
		if len(b) < 5+l {
			break
		}
		isEnd := (target == vanguard.ProtocolGRPCWeb && b[0]&0x80 != 0) || (target == vanguard.ProtocolConnect && b[0]&2 != 0)
		if !isEnd {
			n++
		}
		b = b[5+l:]
	}
	return n
}
