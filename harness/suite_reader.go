package main

import (
	"bytes"
	"compress/gzip"
	"encoding/binary"
	"fmt"
	"io"

	"connectrpc.com/vanguard"
	testv1 "connectrpc.com/vanguard/internal/gen/vanguard/test/v1"
	"google.golang.org/protobuf/proto"
	"google.golang.org/protobuf/reflect/protoregistry"
)

// envelope kind ids as in the Coq wrapper (kind_of): 0 GrpcC 1 GrpcS 2 WebC 3 WebS 4 ConnC 5 ConnS
func clientEnvKind(form int) L {
	switch form {
	case formGRPC:
		return L{int64(0)}
	case formGRPCWeb:
		return L{int64(2)}
	case formConnectStream:
		return L{int64(4)}
	}
	return L{}
}
func serverEnvKind(target vanguard.Protocol, streaming bool) L {
	switch target {
	case vanguard.ProtocolGRPC:
		return L{int64(1)}
	case vanguard.ProtocolGRPCWeb:
		return L{int64(3)}
	case vanguard.ProtocolConnect:
		if streaming {
			return L{int64(5)}
		}
	}
	return L{}
}

var vgJSON = vanguard.NewJSONCodec(protoregistry.GlobalTypes)
var vgProto = vanguard.NewProtoCodec(protoregistry.GlobalTypes)

func vgCodec(name string) vanguard.Codec {
	if name == "json" {
		return vgJSON
	}
	return vgProto
}

// canonical identity of a message: deterministic proto bytes
func canon(m proto.Message) []byte {
	if len(m.ProtoReflect().GetUnknown()) > 0 {
		// unknown fields cannot survive a change of codec: they are not part of a message's identity
		m = proto.Clone(m)
		m.ProtoReflect().SetUnknown(nil)
	}
	b, err := proto.MarshalOptions{Deterministic: true}.Marshal(m)
	if err != nil {
		panic(err)
	}
	return b
}

type oracleTables struct {
	decompress, decode, encode, compress map[string]L // key -> [] | [value]
	order                                [4][]string
	tooBig                               []string
	sdecode                              map[string]L
	sorder                               []string
	gunzip                               map[string]L // unbounded, for the monitors
	gorder                               []string
	oversize                             bool // some representation of some message exceeds the limit
}

func newTables() *oracleTables {
	return &oracleTables{decompress: map[string]L{}, decode: map[string]L{}, encode: map[string]L{}, compress: map[string]L{}, sdecode: map[string]L{}, gunzip: map[string]L{}}
}
func (t *oracleTables) add(which int, m map[string]L, k []byte, v L) {
	if _, ok := m[string(k)]; ok {
		return
	}
	m[string(k)] = v
	t.order[which] = append(t.order[which], string(k))
}
func (t *oracleTables) value() L {
	out := make(L, 5)
	for i, m := range []map[string]L{t.decompress, t.decode, t.encode, t.compress} {
		l := L{}
		for _, k := range t.order[i] {
			l = append(l, L{Bb([]byte(k)), m[k]})
		}
		out[i] = l
	}
	big := L{}
	for _, k := range t.tooBig {
		big = append(big, Bb([]byte(k)))
	}
	out[4] = big
	sd := L{}
	for _, k := range t.sorder {
		sd = append(sd, L{Bb([]byte(k)), t.sdecode[k]})
	}
	gz := L{}
	for _, k := range t.gorder {
		gz = append(gz, L{Bb([]byte(k)), t.gunzip[k]})
	}
	return append(out, sd, gz)
}

// learn computes, by independent library calls, what the four oracles answer for a wire
// payload: decompress (bounded by limit), decode with the client codec, encode with the server
// codec (vanguard's Codec implementations are thin library wrappers and are the oracle here),
// compress with gzip.
func (t *oracleTables) learn(payload []byte, newMsg func() proto.Message, clientCodec, serverCodec string, limit int64) {
	plainCandidates := [][]byte{payload}
	if int64(len(payload)) > limit {
		t.oversize = true
	}
	if un, err := gunzipBytes(payload); err == nil {
		if _, ok := t.gunzip[string(payload)]; !ok {
			t.gunzip[string(payload)] = L{Bb(un)}
			t.gorder = append(t.gorder, string(payload))
		}
		if int64(len(un)) > limit {
			t.oversize = true
		}
	}
	if un, err := gunzipBytes(payload); err == nil && int64(len(un)) <= limit {
		t.add(0, t.decompress, payload, L{Bb(un)})
		plainCandidates = append(plainCandidates, un)
	} else {
		// bounded decompression reports "too big" as soon as limit+1 bytes came out, even if the
		// stream would turn out to be corrupt further on
		if _, ok := t.decompress[string(payload)]; !ok && gunzipExceeds(payload, limit) {
			t.tooBig = append(t.tooBig, string(payload))
		}
		t.add(0, t.decompress, payload, L{})
	}
	t.add(3, t.compress, payload, L{Bb(gzipBytes(payload))})
	for _, plain := range plainCandidates {
		m := newMsg()
		if err := vgCodec(clientCodec).Unmarshal(plain, m); err != nil {
			t.add(1, t.decode, plain, L{})
			continue
		}
		id := canon(m)
		t.add(1, t.decode, plain, L{Bb(id)})
		enc, err := vgCodec(serverCodec).MarshalAppend(nil, m)
		if err != nil {
			t.add(2, t.encode, id, L{})
			continue
		}
		t.add(2, t.encode, id, L{Bb(enc)})
		t.add(3, t.compress, enc, L{Bb(gzipBytes(enc))})
		// what a backend decoding with the server codec would recover (for the monitors)
		for _, sb := range [][]byte{enc, plain} {
			if _, ok := t.sdecode[string(sb)]; !ok {
				sm := newMsg()
				if err := vgCodec(serverCodec).Unmarshal(sb, sm); err == nil {
					t.sdecode[string(sb)] = L{Bb(canon(sm))}
				} else {
					t.sdecode[string(sb)] = L{}
				}
				t.sorder = append(t.sorder, string(sb))
			}
		}
		gz := gzipBytes(enc)
		t.add(0, t.decompress, gz, L{Bb(enc)})
		if _, ok := t.gunzip[string(gz)]; !ok {
			t.gunzip[string(gz)] = L{Bb(enc)}
			t.gorder = append(t.gorder, string(gz))
		}
		if int64(len(enc)) > limit || int64(len(gz)) > limit {
			t.oversize = true
		}
		t.add(3, t.compress, plain, L{Bb(gzipBytes(plain))})
	}
}

func splitChunks(r *rng, body []byte, mode int) [][]byte {
	if len(body) == 0 {
		return nil
	}
	switch mode {
	case 0:
		return [][]byte{body}
	case 1: // one byte at a time
		out := make([][]byte, len(body))
		for i := range body {
			out[i] = body[i : i+1]
		}
		return out
	default:
		var out [][]byte
		for len(body) > 0 {
			n := 1 + r.intn(7)
			if r.chance(1, 4) {
				n = 1 + r.intn(len(body))
			}
			if n > len(body) {
				n = len(body)
			}
			out = append(out, body[:n])
			body = body[n:]
			if r.chance(1, 10) {
				out = append(out, nil) // empty chunk
			}
		}
		return out
	}
}

func chunksV(chunks [][]byte) L {
	out := make(L, len(chunks))
	for i, c := range chunks {
		out[i] = Bb(c)
	}
	return out
}

func readsV(reads []readResult) L {
	out := L{}
	for _, r := range reads {
		out = append(out, L{Bb(r.Data), B(r.Err), int64(r.Up)})
		if r.Err != "" {
			break
		}
	}
	return out
}

type readerCase struct {
	form        int
	target      vanguard.Protocol
	streaming   bool
	clientCodec string
	sameCodec   bool
	clientComp  string
	acceptComp  bool
	limit       uint32
	declareCL   bool
	body        []byte
	chunks      [][]byte
	endErr      bool
	eofLast     bool
	sizes       []int
	tables      *oracleTables
	intent      L
}

func (rc readerCase) serverCodec() string {
	if rc.sameCodec {
		return rc.clientCodec
	}
	if rc.clientCodec == "json" {
		return "proto"
	}
	return "json"
}

func (rc readerCase) run() (in L, out L, skip bool) {
	meth := methGetBook
	svc := libraryService
	if rc.streaming {
		meth, svc = methSubscribe, contentService
	}
	cfg := e2eConfig{Service: svc, Protocols: []vanguard.Protocol{rc.target}, Codecs: []string{rc.serverCodec()}, MaxMsg: rc.limit, NoCompress: !rc.acceptComp}
	spec := clientSpec{Form: rc.form, Codec: rc.clientCodec, Comp: rc.clientComp, Method: meth}
	req := spec.build()
	req.Chunks = rc.chunks
	req.EndErr, req.EOFLast = rc.endErr, rc.eofLast
	contentLen := int64(-1)
	if rc.declareCL && !formEnveloped(rc.form) {
		contentLen = int64(len(rc.body))
	}
	req.ContentLen = contentLen
	res := runScenario(cfg, req, []action{{Op: "readseq", Sizes: rc.sizes}, {Op: "status", N: 200}}, nil)
	if res.BuildErr != "" {
		panic(res.BuildErr)
	}
	if res.Backend.Calls != 1 {
		return nil, nil, true
	}
	clientComp := rc.clientComp == "gzip"
	serverComp := clientComp && rc.acceptComp
	sameComp := !clientComp || rc.acceptComp
	senv := serverEnvKind(rc.target, rc.streaming)
	cx := L{clientEnvKind(rc.form), senv, int64(rc.limit), contentLen, clientComp, serverComp, len(senv) == 0, rc.sameCodec, sameComp, !formEnveloped(rc.form)}
	kind := int64(1)
	mixed := serverComp && len(senv) == 0 && formEnveloped(rc.form)
	if rc.sameCodec && sameComp && !mixed {
		kind = 0
		if formProtocol(rc.form) == rc.target {
			kind = 2 // pass-through: no adapter at all
		}
	}
	term := "EOF"
	if rc.endErr {
		term = "ClientAbort"
	}
	sizes := make(L, len(rc.sizes))
	for i, s := range rc.sizes {
		sizes[i] = int64(s)
	}
	in = L{cx, rc.tables.value(), L{chunksV(rc.chunks), B(term), rc.eofLast}, sizes, kind, rc.intent}
	return in, readsV(res.Backend.Reads), false
}

func init() {
	suites["reader"] = func(c *ctx) {
		forms := []int{formConnectPost, formConnectStream, formGRPC, formGRPCWeb}
		targets := []vanguard.Protocol{vanguard.ProtocolConnect, vanguard.ProtocolGRPC, vanguard.ProtocolGRPCWeb}
		for i := 0; i < c.n; i++ {
			r := c.r
			rc := readerCase{form: pick(r, forms), target: pick(r, targets), clientCodec: pick(r, []string{"proto", "json"}),
				sameCodec: r.chance(1, 2), clientComp: pick(r, []string{"", "", "gzip"}), acceptComp: r.chance(2, 3),
				limit: pick(r, []uint32{1, 5, 16, 40, 100, 4096, 1 << 20}), declareCL: r.chance(1, 2)}
			rc.streaming = rc.form == formConnectStream || (rc.form != formConnectPost && r.chance(1, 2))
			rc.tables = newTables()
			newMsg := methGetBook.NewReq
			if rc.streaming {
				newMsg = methSubscribe.NewReq
			}
			nmsgs := 1
			if formEnveloped(rc.form) {
				nmsgs = r.intn(4)
			}
			var body []byte
			tag := "valid"
			var msgIntent L
			hard, soft := false, false
			for m := 0; m < nmsgs; m++ {
				var msg proto.Message
				size := pick(r, []int{0, 0, 1, 3, 12, 30, 90})
				if rc.streaming {
					sr := &testv1.SubscribeRequest{}
					if size > 0 {
						sr.FilenamePatterns = []string{string(bytes.Repeat([]byte{'a' + byte(m)}, size))}
					}
					msg = sr
				} else {
					gb := &testv1.GetBookRequest{}
					if size > 0 {
						gb.Name = string(bytes.Repeat([]byte{'n'}, size))
					}
					msg = gb
				}
				plain, err := vgCodec(rc.clientCodec).MarshalAppend(nil, msg)
				if err != nil {
					panic(err)
				}
				idOK, id := true, canon(msg)
				if r.chance(1, 12) {
					plain = r.bytes(1 + r.intn(6)) // undecodable (mostly)
					tag = "garbage"
					soft = true
					probe := newMsg()
					if err := vgCodec(rc.clientCodec).Unmarshal(plain, probe); err != nil {
						idOK = false
					} else {
						id = canon(probe)
					}
				}
				payload := plain
				flag := byte(0)
				if rc.clientComp == "gzip" && (!formEnveloped(rc.form) || r.chance(2, 3)) {
					payload = gzipBytes(plain)
					flag = 1
					if r.chance(1, 15) {
						payload[len(payload)/2] ^= 0x40
						tag = "corrupt"
						soft = true
						idOK = false
					}
				}
				rc.tables.learn(payload, newMsg, rc.clientCodec, rc.serverCodec(), int64(rc.limit))
				if formEnveloped(rc.form) {
					if r.chance(1, 20) {
						flag = pick(r, []byte{2, 3, 0x80, 0x81, 0xff, 4})
						tag = "badflag"
						hard = true
						idOK = false
					}
					env := envelope(flag, payload)
					if r.chance(1, 20) {
						binary.BigEndian.PutUint32(env[1:], uint32(len(payload)+pick(r, []int{1, -1, 7, 1000})))
						tag = "lenlie"
						soft = true
						idOK = false
					}
					body = append(body, env...)
				} else {
					body = append(body, payload...)
				}
				msgIntent = append(msgIntent, L{idOK, Bb(id)})
			}
			if r.chance(1, 8) && len(body) > 0 {
				full := body
				cutAt := r.intn(len(body))
				tag = "cut"
				if formEnveloped(rc.form) {
					// frame starts of the body as generated (lengths may lie; stop at the first that does)
					var starts []int
					for off := 0; off+5 <= len(body); {
						starts = append(starts, off)
						n := int(binary.BigEndian.Uint32(body[off+1 : off+5]))
						if n < 0 || off+5+n > len(body) {
							break
						}
						off += 5 + n
					}
					if len(starts) > 0 {
						st := starts[r.intn(len(starts))]
						switch r.intn(8) {
						case 0, 1: // the prefix is complete, none of the announced bytes follows
							if st+5 < len(body) {
								cutAt = st + 5
								tag = "cut-after-prefix"
							}
						case 2: // inside a prefix
							if st+1+r.intn(4) < len(body) {
								cutAt = st + 1 + r.intn(4)
								tag = "cut-in-prefix"
							}
						case 3: // exactly between two frames
							cutAt = st
							tag = "cut-at-boundary"
						case 4: // the last announced byte is missing
							n := int(binary.BigEndian.Uint32(body[st+1 : st+5]))
							if n > 0 && st+5+n <= len(body) {
								cutAt = st + 5 + n - 1
								tag = "cut-last-byte"
							}
						}
					}
				}
				body = body[:cutAt]
				if formEnveloped(rc.form) {
					// recompute: only what survives the cut counts
					hard = checkFrames(body) != ""
					for rest := body; len(rest) >= 5; {
						n := int(binary.BigEndian.Uint32(rest[1:5]))
						if len(rest) < 5+n {
							break
						}
						if rest[0] > 1 {
							hard = true
						}
						rest = rest[5+n:]
					}
					// messages that are no longer complete are not part of what the client finished sending
					kept := 0
					rest := body
					for len(rest) >= 5 {
						n := int(binary.BigEndian.Uint32(rest[1:5]))
						if len(rest) < 5+n {
							break
						}
						kept++
						rest = rest[5+n:]
					}
					if kept < len(msgIntent) {
						msgIntent = msgIntent[:kept]
					}
				} else {
					// without framing a shorter body is just another (probably undecodable) body
					soft = true
					plainBody := body
					if rc.clientComp == "gzip" && len(body) > 0 {
						if un, err := gunzipBytes(body); err == nil {
							plainBody = un
						} else {
							plainBody = nil
						}
					}
					probe := newMsg()
					if plainBody != nil || len(body) == 0 {
						if err := vgCodec(rc.clientCodec).Unmarshal(plainBody, probe); err == nil {
							msgIntent = L{L{true, Bb(canon(probe))}}
						} else {
							msgIntent = L{L{false, B("")}}
						}
					} else {
						msgIntent = L{L{false, B("")}}
					}
				}
				_ = full
			}
			if soft {
				// after a soft fault later frames may be misparsed: only the prefix before it counts
				for k, m := range msgIntent {
					if !m.(L)[0].(bool) {
						msgIntent = msgIntent[:k]
						break
					}
				}
			}
			if msgIntent == nil {
				msgIntent = L{}
			}
			if rc.tables.oversize || int64(len(body)) > int64(rc.limit) {
				soft = true // the size limit may legitimately end the request early
			}
			rc.intent = L{msgIntent, hard, soft}
			if !formEnveloped(rc.form) {
				// whatever the body ended up as (possibly empty) is the one message
				rc.tables.learn(body, newMsg, rc.clientCodec, rc.serverCodec(), int64(rc.limit))
			}
			rc.body = body
			rc.chunks = splitChunks(r, body, r.intn(3))
			rc.endErr = r.chance(1, 10)
			rc.eofLast = r.chance(1, 4)
			switch r.intn(4) {
			case 0:
				rc.sizes = []int{1}
			case 1:
				rc.sizes = []int{1 + r.intn(7)}
			case 2:
				rc.sizes = []int{512}
			default:
				for k := 0; k < 6; k++ {
					rc.sizes = append(rc.sizes, 1+r.intn(9))
				}
			}
			in, out, skip := rc.run()
			if skip {
				continue
			}
			if i%5 == 0 && !rc.endErr {
				// the same stream under other chunkings and buffer sizes (C08, request side)
				outs := L{out}
				for variant := 0; variant < 3; variant++ {
					alt := rc
					alt.chunks = splitChunks(r, rc.body, variant)
					alt.eofLast = variant == 1
					alt.sizes = [][]int{{512}, {1}, {3, 1, 7, 2}}[variant]
					ain, aout, askip := alt.run()
					if askip {
						continue
					}
					outs = append(outs, aout)
					c.emit(Case{Suite: "reader.drain", In: ain, Out: aout, Tags: []string{"reader:" + tag, "reader.variant"}})
				}
				c.emit(Case{Suite: "reader.meta", In: L{}, Out: outs, Tags: []string{"reader.meta:" + tag}})
			}
			adapter := []string{"enveloping", "transforming", "passthrough"}[in[4].(int64)]
			pairing := fmt.Sprintf("%s>%s", formNames[rc.form], rc.target)
			c.emit(Case{Suite: "reader.drain", In: in, Out: out, Tags: []string{"reader:" + tag, "reader.adapter:" + adapter, "reader.pair:" + pairing, fmt.Sprintf("reader.sizes:%d", len(rc.sizes))}})
		}
	}
}

func gunzipExceeds(b []byte, limit int64) bool {
	zr, err := gzip.NewReader(bytes.NewReader(b))
	if err != nil {
		return false
	}
	n, _ := io.Copy(io.Discard, io.LimitReader(zr, limit+1))
	return n > limit
}
