package main

import (
	"bytes"
	"encoding/base64"
	"encoding/binary"
	"encoding/json"
	"net/http"
	"net/textproto"
	"strconv"
	"strings"

	"google.golang.org/genproto/googleapis/rpc/status"
	"google.golang.org/protobuf/proto"
)

// rpcEnd is the structural form of how an RPC ended, as a client of the given protocol
// decodes it (written from the protocol specifications).
type rpcEnd struct {
	Place    int // 1 body, 2 HTTP trailers, 3 headers (gRPC trailers-only)
	Code     int64
	Msg      string
	Details  [][2][]byte
	Trailers http.Header // nil = not separable from headers
	Bad      string      // non-empty: the end could not be decoded (framing violation)
}

var connectCodeNames = map[string]int64{"canceled": 1, "unknown": 2, "invalid_argument": 3, "deadline_exceeded": 4, "not_found": 5,
	"already_exists": 6, "permission_denied": 7, "resource_exhausted": 8, "failed_precondition": 9, "aborted": 10, "out_of_range": 11,
	"unimplemented": 12, "internal": 13, "unavailable": 14, "data_loss": 15, "unauthenticated": 16}

func typeName(url string) string {
	if i := strings.LastIndex(url, "/"); i >= 0 {
		return url[i+1:]
	}
	return url
}

func decodeStatusBin(b64 string) (code int64, msg string, details [][2][]byte, ok bool) {
	raw, err := base64.RawStdEncoding.DecodeString(strings.TrimRight(b64, "="))
	if err != nil {
		return 0, "", nil, false
	}
	var st status.Status
	if err := proto.Unmarshal(raw, &st); err != nil {
		return 0, "", nil, false
	}
	for _, d := range st.GetDetails() {
		details = append(details, [2][]byte{[]byte(typeName(d.GetTypeUrl())), d.GetValue()})
	}
	return int64(uint32(st.GetCode())), st.GetMessage(), details, true
}

func grpcPercentDecode(s string) (string, bool) {
	var out []byte
	for i := 0; i < len(s); i++ {
		if s[i] == '%' {
			if i+2 >= len(s)+0 && i+2 > len(s)-1 {
				return "", false
			}
			v, err := strconv.ParseUint(s[i+1:i+3], 16, 8)
			if err != nil {
				return "", false
			}
			out = append(out, byte(v))
			i += 2
		} else {
			out = append(out, s[i])
		}
	}
	return string(out), true
}

// endFromGRPCKeys decodes Grpc-Status / Grpc-Message / Grpc-Status-Details-Bin from a header map
func endFromGRPCKeys(h http.Header, place int) rpcEnd {
	e := rpcEnd{Place: place}
	st := h.Get("Grpc-Status")
	code, err := strconv.ParseUint(st, 10, 32)
	if err != nil {
		e.Bad = "grpc-status " + st
		return e
	}
	e.Code = int64(code)
	if det := h.Get("Grpc-Status-Details-Bin"); det != "" {
		c, m, d, ok := decodeStatusBin(det)
		if !ok {
			e.Bad = "details-bin"
			return e
		}
		e.Code, e.Msg, e.Details = c, m, d
	} else {
		m, ok := grpcPercentDecode(h.Get("Grpc-Message"))
		if !ok {
			e.Bad = "grpc-message"
		}
		e.Msg = m
	}
	return e
}

func stripGRPCKeys(h http.Header) http.Header {
	out := http.Header{}
	for k, v := range h {
		if k == "Grpc-Status" || k == "Grpc-Message" || k == "Grpc-Status-Details-Bin" {
			continue
		}
		out[k] = v
	}
	return out
}

type connectWireErr struct {
	Code    string `json:"code"`
	Message string `json:"message"`
	Details []struct {
		Type  string `json:"type"`
		Value string `json:"value"`
	} `json:"details"`
}

func (w *connectWireErr) toEnd(e *rpcEnd) {
	code, ok := connectCodeNames[w.Code]
	if !ok {
		if n, err := strconv.ParseInt(strings.TrimPrefix(w.Code, "code_"), 10, 64); err == nil {
			code = n
		} else {
			e.Bad = "connect code " + w.Code
		}
	}
	e.Code, e.Msg = code, w.Message
	for _, d := range w.Details {
		v, err := base64.RawStdEncoding.DecodeString(strings.TrimRight(d.Value, "="))
		if err != nil {
			e.Bad = "detail value"
		}
		e.Details = append(e.Details, [2][]byte{[]byte(d.Type), v})
	}
}

type clientView struct {
	Status  int
	Heads   int
	Head    http.Header
	Data    []byte
	Ends    []rpcEnd
	Framing string // non-empty: the body violates the client's framing
	Flushes []int  // body offsets at which the underlying writer was flushed
	// bytes written after the end-of-stream frame (framed forms): always a violation
	AfterEnd int
}

// splitEnd separates the end frame the transcoder wrote (an envelope write with the
// end flag followed by its payload write, as encodeEnd does) from the data before it.
func splitEnd(rec *recorder, mask byte) (data []byte, end []byte, found bool) {
	data, end, found, _ = splitEndAfter(rec, mask)
	return data, end, found
}

func splitEndAfter(rec *recorder, mask byte) (data []byte, end []byte, found bool, after int) {
	var writes [][]byte
	for _, e := range rec.events {
		if e.Kind == "W" {
			writes = append(writes, e.Data)
		}
	}
	for i := len(writes) - 1; i >= 0; i-- {
		w := writes[i]
		if len(w) == 5 && w[0]&mask != 0 {
			n := int(binary.BigEndian.Uint32(w[1:5]))
			var rest []byte
			for _, x := range writes[i+1:] {
				rest = append(rest, x...)
			}
			if len(rest) >= n {
				for _, x := range writes[:i] {
					data = append(data, x...)
				}
				data = append(data, rest[n:]...) // anything after the end frame counts as data (a violation)
				return data, rest[:n], true, len(rest) - n
			}
		}
	}
	for _, x := range writes {
		data = append(data, x...)
	}
	return data, nil, false, 0
}

func checkFrames(data []byte) string {
	for len(data) > 0 {
		if len(data) < 5 {
			return "short envelope"
		}
		n := int(binary.BigEndian.Uint32(data[1:5]))
		if len(data) < 5+n {
			return "short payload"
		}
		data = data[5+n:]
	}
	return ""
}

func decodeClient(form int, rec *recorder) clientView {
	v := clientView{Status: rec.status(), Heads: rec.headCount(), Head: http.Header{}, Flushes: rec.flushOffsets()}
	if rec.headSnap != nil {
		v.Head = rec.headSnap.Clone()
	}
	body := rec.body()
	switch form {
	case formGRPC:
		if len(v.Head.Values("Grpc-Status")) > 0 {
			e := endFromGRPCKeys(v.Head, 3)
			v.Ends = append(v.Ends, e)
			v.Head = stripGRPCKeys(v.Head)
		}
		v.Data = body
		tr := rec.trailers()
		if len(tr.Values("Grpc-Status")) > 0 {
			e := endFromGRPCKeys(tr, 2)
			e.Trailers = stripGRPCKeys(tr)
			v.Ends = append(v.Ends, e)
		}
	case formGRPCWeb:
		if len(v.Head.Values("Grpc-Status")) > 0 {
			e := endFromGRPCKeys(v.Head, 3)
			v.Ends = append(v.Ends, e)
			v.Head = stripGRPCKeys(v.Head)
		}
		data, end, found, after := splitEndAfter(rec, 0x80)
		v.Data, v.AfterEnd = data, after
		v.Framing = checkFrames(data)
		if found {
			tp := textproto.MIMEHeader{}
			for _, line := range strings.Split(string(end), "\r\n") {
				if line == "" {
					continue
				}
				k, val, ok := strings.Cut(line, ":")
				if !ok {
					v.Framing = "bad trailer line"
					continue
				}
				tp.Add(k, strings.TrimSpace(val))
			}
			e := endFromGRPCKeys(http.Header(tp), 1)
			e.Trailers = stripGRPCKeys(http.Header(tp))
			v.Ends = append(v.Ends, e)
		}
	case formConnectStream:
		data, endb, found, after := splitEndAfter(rec, 2)
		v.Data, v.AfterEnd = data, after
		v.Framing = checkFrames(data)
		if found {
			var end struct {
				Error    *connectWireErr     `json:"error"`
				Metadata map[string][]string `json:"metadata"`
			}
			e := rpcEnd{Place: 1, Trailers: http.Header{}}
			if err := json.Unmarshal(endb, &end); err != nil {
				e.Bad = "end-stream json"
			} else {
				if end.Error != nil {
					end.Error.toEnd(&e)
				}
				for k, vals := range end.Metadata {
					e.Trailers[k] = vals
				}
			}
			v.Ends = append(v.Ends, e)
		}
	case formConnectPost, formConnectGet:
		if v.Status != 200 {
			e := rpcEnd{Place: 1}
			var w connectWireErr
			if err := json.Unmarshal(body, &w); err != nil {
				e.Bad = "error json"
			} else {
				w.toEnd(&e)
			}
			v.Ends = append(v.Ends, e)
		} else {
			v.Data = body
		}
	case formREST:
		if v.Status/100 != 2 {
			e := rpcEnd{Place: 1}
			var st struct {
				Code    int64  `json:"code"`
				Message string `json:"message"`
				Details []map[string]any
			}
			if err := json.Unmarshal(body, &st); err != nil {
				e.Bad = "status json"
			} else {
				e.Code, e.Msg = st.Code, st.Message
				for _, d := range st.Details {
					t, _ := d["@type"].(string)
					e.Details = append(e.Details, [2][]byte{[]byte(typeName(t)), nil})
				}
			}
			v.Ends = append(v.Ends, e)
		} else {
			v.Data = body
		}
	}
	return v
}

func endV(e rpcEnd, known map[string]bool) L {
	msg := e.Msg
	if !known[msg] {
		msg = "<gen>"
	}
	if e.Code == 0 {
		msg = ""
	}
	det := L{}
	for _, d := range e.Details {
		det = append(det, L{Bb(d[0]), Bb(d[1])})
	}
	var tr any = B("<any>")
	if e.Trailers != nil {
		tr = hdrV(e.Trailers)
	}
	if e.Bad != "" {
		return L{int64(e.Place), int64(-1), B(e.Bad), L{}, tr}
	}
	return L{int64(e.Place), e.Code, B(msg), det, tr}
}

func (v clientView) value(panicked bool, writes []string, known map[string]bool) L {
	ends := L{}
	for _, e := range v.Ends {
		ends = append(ends, endV(e, known))
	}
	wr := L{}
	for _, w := range writes {
		wr = append(wr, w == "")
	}
	fl := L{}
	for _, off := range v.Flushes {
		if off <= len(v.Data) {
			fl = append(fl, int64(off))
		}
	}
	return L{panicked, int64(v.Heads), int64(v.Status), hdrV(v.Head), Bb(v.Data), ends, wr, fl, int64(v.AfterEnd)}
}

var _ = bytes.Equal
