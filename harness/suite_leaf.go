package main

import (
	"connectrpc.com/vanguard"
)

var envKinds = []string{"grpc-client", "grpc-server", "grpcweb-client", "grpcweb-server", "connect-client", "connect-server"}

func envDecode(kind int, raw []byte) any {
	var arr [5]byte
	copy(arr[:], raw)
	env, ok := vanguard.VerifDecodeEnvelope(envKinds[kind], arr)
	if !ok {
		return L{}
	}
	return L{env.Trailer, env.Compressed, int64(env.Length)}
}

func statusFrom(code int64) any {
	st, ok := vanguard.VerifHTTPStatusFromRPC(uint32(code))
	return Opt(ok, int64(st))
}

func init() {
	replayers["env.decode"] = func(in any) any {
		l := rList(in)
		return envDecode(int(rInt(l[0])), []byte(rStr(l[1])))
	}
	replayers["env.encode"] = func(in any) any {
		l := rList(in)
		out := vanguard.VerifEncodeEnvelope(envKinds[rInt(l[0])], vanguard.VerifEnvelope{Trailer: rBool(l[1]), Compressed: rBool(l[2]), Length: uint32(rInt(l[3]))})
		return Bb(out[:])
	}
	replayers["status.from_rpc"] = func(in any) any { return statusFrom(rInt(in)) }
	replayers["status.to_rpc"] = func(in any) any { return int64(vanguard.VerifHTTPStatusToRPC(int(rInt(in)))) }
	replayers["percent.grpc_encode"] = func(in any) any { return B(vanguard.VerifGRPCPercentEncode(rStr(in))) }
	replayers["percent.grpc_decode"] = func(in any) any {
		out, ok := vanguard.VerifGRPCPercentDecode(rStr(in))
		return Opt(ok, B(out))
	}
	replayers["path.escape"] = func(in any) any {
		l := rList(in)
		return B(vanguard.VerifPathEscape(rStr(l[1]), rBool(l[0])))
	}
	replayers["path.unescape"] = func(in any) any {
		l := rList(in)
		out, ok := vanguard.VerifPathUnescape(rStr(l[1]), rBool(l[0]))
		return Opt(ok, B(out))
	}

	suites["envelopes"] = func(c *ctx) {
		lens := [][]byte{{0, 0, 0, 0}, {0, 0, 0, 1}, {0, 0, 1, 0}, {0xff, 0xff, 0xff, 0xff}, {0x12, 0x34, 0x56, 0x78}, {0x80, 0, 0, 0}}
		for k := range envKinds {
			for f := 0; f < 256; f++ {
				for li, l := range lens {
					if li > 1 && f > 3 && f != 128 && f != 129 && f%37 != 0 {
						continue
					}
					raw := append([]byte{byte(f)}, l...)
					in := L{int64(k), Bb(raw)}
					c.emit(Case{Suite: "env.decode", In: in, Out: envDecode(k, raw), Tags: []string{"env.decode:" + envKinds[k]}})
				}
			}
			for _, tr := range []bool{false, true} {
				for _, cp := range []bool{false, true} {
					for _, n := range []int64{0, 1, 255, 256, 65535, 65536, 16777215, 16777216, 4294967295, int64(c.r.next() >> 32)} {
						in := L{int64(k), tr, cp, n}
						c.emit(Case{Suite: "env.encode", In: in, Out: replayers["env.encode"](in), Tags: []string{"env.encode:" + envKinds[k]}})
					}
				}
			}
		}
	}

	suites["status"] = func(c *ctx) {
		for code := int64(0); code <= 300; code++ {
			c.emit(Case{Suite: "status.from_rpc", In: code, Out: statusFrom(code), Tags: []string{"status.from_rpc:small"}})
		}
		for _, code := range []int64{1<<31 - 2, 1<<31 - 1, 1 << 31, 1<<31 + 1, 1<<32 - 1, 1<<32 - 2, 65536, 1000000} {
			c.emit(Case{Suite: "status.from_rpc", In: code, Out: statusFrom(code), Tags: []string{"status.from_rpc:large"}})
		}
		for st := int64(-5); st <= 700; st++ {
			c.emit(Case{Suite: "status.to_rpc", In: st, Out: int64(vanguard.VerifHTTPStatusToRPC(int(st))), Tags: []string{"status.to_rpc:sweep"}})
		}
	}

	suites["percent"] = func(c *ctx) {
		emitEnc := func(s string, tag string) {
			c.emit(Case{Suite: "percent.grpc_encode", In: B(s), Out: B(vanguard.VerifGRPCPercentEncode(s)), Tags: []string{"percent.grpc_encode:" + tag}})
			for _, multi := range []bool{false, true} {
				in := L{multi, B(s)}
				c.emit(Case{Suite: "path.escape", In: in, Out: replayers["path.escape"](in), Tags: []string{"path.escape:" + tag}})
			}
		}
		emitDec := func(s string, tag string) {
			c.emit(Case{Suite: "percent.grpc_decode", In: B(s), Out: replayers["percent.grpc_decode"](B(s)), Tags: []string{"percent.grpc_decode:" + tag}})
			for _, multi := range []bool{false, true} {
				in := L{multi, B(s)}
				c.emit(Case{Suite: "path.unescape", In: in, Out: replayers["path.unescape"](in), Tags: []string{"path.unescape:" + tag}})
			}
		}
		emitEnc("", "empty")
		emitDec("", "empty")
		for b := 0; b < 256; b++ {
			s := string([]byte{byte(b)})
			emitEnc(s, "single")
			emitEnc("a"+s+"b", "single")
			emitDec(s, "single")
			emitDec("%"+s, "pct1")
			emitDec("%4"+s, "pct2")
			emitDec("%"+s+"4", "pct2")
			emitDec("x%2"+s+"y", "pct2")
		}
		hexd := "0123456789abcdefABCDEFgG/%"
		for i := 0; i < len(hexd); i++ {
			for j := 0; j < len(hexd); j++ {
				emitDec("%"+hexd[i:i+1]+hexd[j:j+1], "pairs")
				emitEnc("%"+hexd[i:i+1]+hexd[j:j+1], "pairs")
			}
		}
		alpha := []string{"%", "2", "f", "F", "/", "a", "%2F", "%2f", "%25", " ", "\xc3\xa9", "~", ":", "%%", "\x00", "\xff"}
		for i := 0; i < c.n; i++ {
			var s string
			for k := c.r.intn(8); k >= 0; k-- {
				s += pick(c.r, alpha)
			}
			emitEnc(s, "random")
			emitDec(s, "random")
			emitDec(vanguard.VerifGRPCPercentEncode(s), "roundtrip")
			emitDec(vanguard.VerifPathEscape(s, c.r.chance(1, 2)), "roundtrip")
		}
	}
}
