package main

import (
	"bytes"
	"fmt"
	"os"
	"strings"
	"sync"

	"connectrpc.com/vanguard"
	testv1 "connectrpc.com/vanguard/internal/gen/vanguard/test/v1"
	"google.golang.org/protobuf/proto"
)

// pool observer: largest buffer capacity seen at Get/Put, and the Get/Put trace
type poolWatch struct {
	mu     sync.Mutex
	maxCap int
	trace  []poolEvent
	ids    map[*bytes.Buffer]int
}
type poolEvent struct {
	Op  byte
	ID  int
	Cap int
}

func (p *poolWatch) observe(op byte, buf *bytes.Buffer) {
	p.mu.Lock()
	defer p.mu.Unlock()
	if buf.Cap() > p.maxCap {
		p.maxCap = buf.Cap()
	}
	id, ok := p.ids[buf]
	if !ok {
		id = len(p.ids) + 1
		p.ids[buf] = id
	}
	p.trace = append(p.trace, poolEvent{op, id, buf.Cap()})
}

func watchPool() (*poolWatch, func()) {
	pw := &poolWatch{ids: map[*bytes.Buffer]int{}}
	fn := func(op byte, buf *bytes.Buffer) { pw.observe(op, buf) }
	vanguard.VerifPoolObserver.Store(&fn)
	return pw, func() { vanguard.VerifPoolObserver.Store(nil) }
}

// message whose proto form has about n bytes (and whose JSON form is larger)
func sizedBook(n int) *testv1.Book {
	if n < 3 {
		return &testv1.Book{}
	}
	return &testv1.Book{Name: strings.Repeat("x", n-2-boolToInt(n > 129))}
}
func boolToInt(b bool) int {
	if b {
		return 1
	}
	return 0
}

func init() {
	suites["limits"] = func(c *ctx) {
		r := c.r
		for i := 0; i < c.n; i++ {
			lim := pick(r, []int{64, 300, 1024, 4096})
			reqDir := r.chance(1, 2)
			form := pick(r, []int{formConnectPost, formGRPC, formGRPCWeb})
			target := pick(r, []vanguard.Protocol{vanguard.ProtocolConnect, vanguard.ProtocolGRPC, vanguard.ProtocolGRPCWeb})
			clientCodec := pick(r, []string{"proto", "json"})
			serverCodec := map[string]string{"proto": "json", "json": "proto"}[clientCodec] // always re-encode
			comp := pick(r, []string{"", "gzip"})
			cfg := e2eConfig{Service: libraryService, Protocols: []vanguard.Protocol{target}, Codecs: []string{serverCodec}, MaxMsg: uint32(lim)}
			// the size under test, relative to the limit
			rel := pick(r, []int{-1, 0, 1, lim, -lim / 2})
			which := pick(r, []string{"wire", "plain", "reencoded", "bomb"})
			var reqMsg proto.Message = &testv1.GetBookRequest{Name: bookName("s", "b")}
			var respMsg proto.Message = &testv1.Book{Name: "n"}
			// choose the message so that the named representation has size L+rel
			mk := func(codecOfInterest string, n int) proto.Message {
				// binary search on the name length to hit the encoded size exactly
				lo, hi := 0, n+8
				best := &testv1.Book{}
				for lo <= hi {
					mid := (lo + hi) / 2
					m := &testv1.Book{Name: strings.Repeat("x", mid)}
					b, _ := vgCodec(codecOfInterest).MarshalAppend(nil, m)
					if len(b) <= n {
						best = m
						lo = mid + 1
					} else {
						hi = mid - 1
					}
				}
				return best
			}
			srcCodec, dstCodec := clientCodec, serverCodec
			if !reqDir {
				srcCodec, dstCodec = serverCodec, clientCodec
			}
			var big *testv1.Book
			switch which {
			case "wire", "plain":
				big = mk(srcCodec, lim+rel).(*testv1.Book)
			case "reencoded":
				big = mk(dstCodec, lim+rel).(*testv1.Book)
			default: // bomb: tiny on the wire, huge when inflated
				big = &testv1.Book{Name: strings.Repeat("z", 50*lim)}
				comp = "gzip"
			}
			if which == "wire" && comp == "gzip" {
				// the compressed form is what is on the wire; make the plain form the one under test instead
				which = "plain"
			}
			if reqDir {
				reqMsg = &testv1.CreateBookRequest{Parent: "shelves/s", Book: big}
			} else {
				respMsg = big
			}
			method := methGetBook
			if reqDir {
				method = methCreateBook
			}
			srcBytes, _ := vgCodec(srcCodec).MarshalAppend(nil, map[bool]proto.Message{true: reqMsg, false: respMsg}[reqDir])
			dstBytes, _ := vgCodec(dstCodec).MarshalAppend(nil, map[bool]proto.Message{true: reqMsg, false: respMsg}[reqDir])
			wire := srcBytes
			if comp == "gzip" {
				wire = gzipBytes(srcBytes)
			}
			fits := len(wire) <= lim && len(srcBytes) <= lim && len(dstBytes) <= lim
			if reqDir && !formEnveloped(form) && target == vanguard.ProtocolConnect {
				continue // unary to unary with different codec only: fine, but keep pairs uniform
			}
			// client request
			reqPlain, _ := vgCodec(clientCodec).MarshalAppend(nil, reqMsg)
			spec := clientSpec{Form: form, Codec: clientCodec, Method: method, Msgs: [][]byte{reqPlain}, Flags: []bool{true}}
			if reqDir {
				spec.Comp = comp
			}
			req := spec.build()
			// backend answer
			b := backendResp{Target: target, Codec: serverCodec, Split: r.intn(3)}
			respPlain, _ := vgCodec(serverCodec).MarshalAppend(nil, respMsg)
			b.Msgs, b.Flags = [][]byte{respPlain}, []bool{true}
			if !reqDir {
				b.Comp = comp
			}
			script := append([]action{{Op: "readall", N: 512}}, b.script(r, newEndTables())...)
			pw, stop := watchPool()
			res := runScenario(cfg, req, script, nil)
			stop()
			if res.BuildErr != "" {
				panic(res.BuildErr)
			}
			view := decodeClient(form, res.Rec)
			code := int64(0)
			for _, e := range view.Ends {
				code = e.Code
			}
			// was the message delivered to the other side intact?
			delivered := false
			if reqDir {
				got := res.Backend.body()
				if len(serverEnvKind(target, false)) > 0 && len(got) >= 5 {
					got = got[5:]
				}
				if un, err := gunzipBytes(got); err == nil {
					got = un
				}
				delivered = bytes.Equal(got, dstBytes)
			} else {
				got := view.Data
				if formEnveloped(form) && len(got) >= 5 {
					got = got[5:]
				}
				if un, err := gunzipBytes(got); err == nil {
					got = un
				}
				delivered = bytes.Equal(got, dstBytes)
			}
			if !delivered && code == 0 && res.Panic == "" && os.Getenv("DBG") != "" {
				gb := res.Backend.body()
				if un, err := gunzipBytes(gb); err == nil {
					gb = un
				}
				fmt.Fprintf(os.Stderr, "UNDELIVERED dir=%v form=%s target=%s comp=%q gotlen=%d wantlen=%d eq=%v lastread=%s hdr=%v\n", reqDir, formNames[form], target, comp, len(gb), len(dstBytes), bytes.Equal(gb, dstBytes), res.Backend.lastReadErr(), res.Backend.Header)
			}
			delivered = delivered && code == 0
			in := L{int64(lim), reqDir, fits, int64(len(wire)), int64(len(srcBytes)), int64(len(dstBytes)), B(which)}
			out := L{code, delivered, int64(pw.maxCap), res.Panic != "", int64(res.Backend.Calls)}
			dir := "response"
			if reqDir {
				dir = "request"
			}
			fit := "over"
			if fits {
				fit = "fits"
			}
			c.emit(Case{Suite: "limits.e2e", In: in, Out: out, Tags: []string{"limits:" + which, "limits.dir:" + dir, "limits.fit:" + fit,
				fmt.Sprintf("limits.pair:%s>%s", formNames[form], target)}, Desc: res.Panic})
		}
	}
}
