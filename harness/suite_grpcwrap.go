package main

import (
	"context"
	"strings"

	"connectrpc.com/vanguard"
	testv1 "connectrpc.com/vanguard/internal/gen/vanguard/test/v1"
	"connectrpc.com/vanguard/vanguardgrpc"
	"google.golang.org/grpc"
	"google.golang.org/grpc/codes"
	"google.golang.org/grpc/metadata"
	"google.golang.org/grpc/status"
)

type libraryServer struct {
	testv1.UnimplementedLibraryServiceServer
}

func (libraryServer) GetBook(ctx context.Context, req *testv1.GetBookRequest) (*testv1.Book, error) {
	_ = grpc.SetHeader(ctx, metadata.Pairs("x-from-server", "h"))
	_ = grpc.SetTrailer(ctx, metadata.Pairs("x-trail", "t"))
	if strings.Contains(req.GetName(), "missing") {
		return nil, status.Error(codes.NotFound, "no such book: "+req.GetName())
	}
	return &testv1.Book{Name: req.GetName(), Title: "T"}, nil
}

func init() {
	// C20 (last clause): a transcoder wrapped from a gRPC server registry behaves like the same
	// services registered by name with the equivalent options
	suites["grpcwrap"] = func(c *ctx) {
		r := c.r
		server := grpc.NewServer()
		testv1.RegisterLibraryServiceServer(server, libraryServer{})
		wrapped, err := vanguardgrpc.NewTranscoder(server)
		if err != nil {
			panic(err)
		}
		byName, err := vanguard.NewTranscoder([]*vanguard.Service{vanguard.NewService(libraryService, server,
			vanguard.WithTargetProtocols(vanguard.ProtocolGRPC), vanguard.WithTargetCodecs(vanguard.CodecProto))})
		if err != nil {
			panic(err)
		}
		for i := 0; i < c.n; i++ {
			form := pick(r, []int{formConnectPost, formConnectGet, formGRPCWeb, formREST})
			codec := pick(r, []string{"proto", "json"})
			name := bookName(pick(r, []string{"s", "missing", "a b"}), pick(r, []string{"b", "x%y", "z"}))
			spec := getBookSpec(form, codec, pick(r, []string{"", "gzip"}), name)
			if form == formREST {
				spec.RestPath = "/v1/" + strings.ReplaceAll(strings.ReplaceAll(name, "%", "%25"), " ", "%20")
				spec.Comp = ""
			}
			if r.chance(1, 5) {
				spec.Method = rpcMethod{Service: libraryService, Name: "ListBooks"} // unimplemented by the server
			}
			req := spec.build()
			known := map[string]bool{"": true, "no such book: " + name: true}
			var outs L
			for _, tc := range []*vanguard.Transcoder{wrapped, byName} {
				var res scenarioResult
				res = runOn(tc, req, &res)
				view := decodeClient(form, res.Rec)
				outs = append(outs, view.value(res.Panic != "", nil, known))
			}
			c.emit(Case{Suite: "dual.meta", In: L{B("grpcwrap"), int64(i)}, Out: outs, Tags: []string{"dual:grpcwrap", "grpcwrap.form:" + formNames[form]}})
		}
	}
}
