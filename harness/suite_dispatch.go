package main

import (
	"net/http"
	"sort"
	"strings"

	"connectrpc.com/vanguard"
	testv1 "connectrpc.com/vanguard/internal/gen/vanguard/test/v1"
	"google.golang.org/protobuf/proto"
)

// raw (protocol-agnostic) handler response used for pass-through / unknown-endpoint checks
type rawResp struct {
	Status   int
	Headers  [][2]string
	Chunks   [][]byte
	Trailers [][2]string
}

func (rr rawResp) script(readSize int) []action {
	acts := []action{{Op: "readall", N: readSize}}
	for _, h := range rr.Headers {
		acts = append(acts, action{Op: "hadd", Key: h[0], Val: h[1]})
	}
	acts = append(acts, action{Op: "status", N: rr.Status})
	for _, c := range rr.Chunks {
		acts = append(acts, action{Op: "write", Data: c})
		acts = append(acts, action{Op: "flush"})
	}
	for _, t := range rr.Trailers {
		acts = append(acts, action{Op: "hadd", Key: http.TrailerPrefix + t[0], Val: t[1]})
	}
	return acts
}

func kvHdrV(kvs [][2]string) L {
	h := http.Header{}
	for _, kv := range kvs {
		h.Add(kv[0], kv[1])
	}
	return hdrV(h)
}

func (rr rawResp) value() L {
	var body []byte
	for _, c := range rr.Chunks {
		body = append(body, c...)
	}
	return L{int64(rr.Status), kvHdrV(rr.Headers), Bb(body), kvHdrV(rr.Trailers)}
}

func init() {
	suites["dispatch"] = func(c *ctx) {
		r := c.r
		protoSubsets := [][]vanguard.Protocol{}
		for mask := 1; mask < 16; mask++ {
			var s []vanguard.Protocol
			for i, p := range allTargets {
				if mask&(1<<i) != 0 {
					s = append(s, p)
				}
			}
			protoSubsets = append(protoSubsets, s)
		}
		rawBodies := [][]byte{nil, []byte("hello"), {0, 0, 0, 0, 3, 'a', 'b', 'c'}, {0xff, 0xfe, 0, 1, 2}, []byte(`{"name":"shelves/s/books/b"}`), make([]byte, 300)}
		for i := 0; i < c.n; i++ {
			streaming := r.chance(1, 3)
			cfg := e2eConfig{Service: libraryService, Protocols: pick(r, protoSubsets), Codecs: pick(r, [][]string{{"proto"}, {"json"}, {"proto", "json"}}),
				NoCompress: r.chance(1, 3), Unknown: r.chance(1, 2)}
			var spec clientSpec
			form := pick(r, []int{formConnectPost, formConnectGet, formGRPC, formGRPCWeb, formREST})
			codec := pick(r, []string{"proto", "json"})
			comp := pick(r, []string{"", "", "gzip", "identity"})
			if streaming {
				cfg.Service = contentService
				form = pick(r, []int{formConnectStream, formGRPC, formGRPCWeb})
				spec = subscribeSpec(form, codec, comp, 1+r.intn(2))
			} else {
				var msg proto.Message = &testv1.GetBookRequest{Name: bookName("s", "b")}
				spec = clientSpec{Form: form, Codec: codec, Comp: comp, Method: methGetBook, Msgs: [][]byte{marshal(codec, msg)}, Flags: []bool{true}}
				if form == formREST {
					spec.RestPath = "/v1/shelves/s/books/b"
					if r.chance(1, 3) {
						spec.RestPath += "?x=1"
					}
				}
			}
			for k := r.intn(3); k > 0; k-- {
				spec.Extra = append(spec.Extra, pick(r, appHeaders))
			}
			if r.chance(1, 6) {
				spec.Extra = append(spec.Extra, pick(r, ctrlHeaders))
			}
			req := spec.build()
			tag := "rpc"
			if r.chance(1, 4) {
				req.Target = pick(r, []string{"/", "/unknown.Service/Method", "/" + cfg.Service + "/Nope", "/static/app.js?v=3", "/v9/none", "/a%2Fb/c%20d"})
				tag = "unmatched"
			}
			if r.chance(1, 3) && !strings.HasPrefix(tag, "needs-message") {
				// bytes that are not valid in the protocol must be forwarded untouched as well
				req.Chunks = [][]byte{pick(r, rawBodies)}
				tag += "+rawbody"
			}
			expectReject := false
			if r.chance(1, 6) {
				// the request line of the backend request needs the leading message (REST-only service):
				// an undecodable or unfinished leading message must be rejected without any dispatch
				cfg = e2eConfig{Service: libraryService, Protocols: []vanguard.Protocol{vanguard.ProtocolREST}, Unknown: cfg.Unknown}
				form = pick(r, []int{formGRPC, formGRPCWeb, formConnectPost})
				meth := pick(r, []rpcMethod{{Service: libraryService, Name: "ListShelves"}, {Service: libraryService, Name: "CreateShelf"}, methGetBook})
				var msg proto.Message
				switch meth.Name {
				case "ListShelves":
					msg = &testv1.ListShelvesRequest{PageSize: 3}
				case "CreateShelf":
					msg = &testv1.CreateShelfRequest{Shelf: &testv1.Shelf{}}
				default:
					msg = &testv1.GetBookRequest{Name: bookName("s", "b")}
				}
				spec = clientSpec{Form: form, Codec: codec, Method: meth, Msgs: [][]byte{marshal(codec, msg)}, Flags: []bool{true}}
				req = spec.build()
				tag = "needs-message"
				full := req.Chunks
				var fb []byte
				for _, ch := range full {
					fb = append(fb, ch...)
				}
				switch r.intn(5) {
				case 0: // intact
				case 1: // only an envelope announcing a payload that never comes
					if formEnveloped(form) {
						req.Chunks = [][]byte{{0, 0, 0, 0, byte(1 + r.intn(30))}}
						expectReject = true
						tag += "+envelope-only"
					}
				case 2: // cut inside the payload
					if len(fb) > 6 {
						cut := 6 + r.intn(len(fb)-6)
						if formEnveloped(form) {
							req.Chunks = [][]byte{fb[:cut]}
							expectReject = true
							tag += "+cut"
						}
					}
				case 3: // undecodable payload
					junk := []byte{0xff, 0xff, 0xff, 0xff, 0x0f, 0x01}
					if codec == "json" {
						junk = []byte(`{"name": `)
					}
					if formEnveloped(form) {
						req.Chunks = [][]byte{envelope(0, junk)}
					} else {
						req.Chunks = [][]byte{junk}
					}
					expectReject = true
					tag += "+garbage"
				case 4: // illegal flag
					if formEnveloped(form) && len(fb) > 0 {
						mod := append([]byte(nil), fb...)
						mod[0] = 0x42
						req.Chunks = [][]byte{mod}
						expectReject = true
						tag += "+badflag"
					}
				}
			}
			if r.chance(1, 6) {
				// the other HTTP version (gRPC over HTTP/1.x is refused, but only for paths the transcoder serves)
				req.ProtoMajor = 3 - req.ProtoMajor
				if req.ProtoMajor != 1 && req.ProtoMajor != 2 {
					req.ProtoMajor = 1
				}
				tag += "+httpversion"
			}
			if r.chance(1, 6) {
				// media types are case-insensitive for the client, but what is forwarded must be what was sent
				for k := range req.Headers {
					if req.Headers[k][0] == "Content-Type" && req.Headers[k][1] != "" {
						v := req.Headers[k][1]
						mixed := strings.ToUpper(v[:1]) + v[1:]
						if j := strings.Index(mixed, "/"); j >= 0 && j+2 <= len(mixed) {
							mixed = mixed[:j+1] + strings.ToUpper(mixed[j+1:j+2]) + mixed[j+2:]
						}
						req.Headers[k][1] = mixed + pick(r, []string{"", "; charset=UTF-8"})
						tag += "+ctcase"
						// with another spelling the request may be another protocol's (prefixes are matched
						// literally): the expectation that rested on the original classification is void
						expectReject = false
					}
				}
			}
			var body []byte
			for _, ch := range req.Chunks {
				body = append(body, ch...)
			}
			req.Chunks = splitChunks(r, body, r.intn(3))
			switch r.intn(3) {
			case 0:
				req.ContentLen = -1
			case 1:
				req.ContentLen = int64(len(body))
			}
			if req.ContentLen == -2 {
				req.ContentLen = int64(len(body))
			}
			in2, ok := creqV(req)
			if !ok {
				continue
			}
			rr := rawResp{Status: pick(r, []int{200, 200, 201, 204, 404, 418, 500}), Headers: pick(r, [][][2]string{nil, {{"Content-Type", "text/plain"}}, {{"Content-Type", "application/grpc"}, {"X-A", "1"}, {"X-A", "2"}}, {{"Content-Encoding", "gzip"}, {"Grpc-Status", "7"}}}),
				Trailers: pick(r, [][][2]string{nil, {{"X-T", "1"}}, {{"Grpc-Status", "0"}, {"Grpc-Message", "ok"}}})}
			if rr.Status != 204 {
				for k := r.intn(3); k > 0; k-- {
					rr.Chunks = append(rr.Chunks, pick(r, rawBodies[1:5]))
				}
			}
			readSize := pick(r, []int{1, 7, 512})
			res := runScenario(cfg, req, rr.script(readSize), rr.script(readSize))
			if res.BuildErr != "" {
				continue
			}
			seen := L{L{}, B(""), B("")}
			who := &res.Backend
			if res.Unknown.Calls > 0 {
				who = &res.Unknown
			}
			if who.Calls > 0 {
				seen = L{bheadV(who), Bb(who.body()), B(who.lastReadErr())}
			}
			tr := res.Rec.trailers()
			trv := L{}
			keys := make([]string, 0, len(tr))
			for k := range tr {
				keys = append(keys, k)
			}
			sort.Strings(keys)
			for _, k := range keys {
				trv = append(trv, L{B(k), Bl(tr[k])})
			}
			head := http.Header{}
			if res.Rec.headSnap != nil {
				head = res.Rec.headSnap
			}
			cli := L{int64(res.Rec.headCount()), int64(res.Rec.status()), hdrV(head), Bb(res.Rec.body()), trv}
			out := L{int64(res.Backend.Calls), int64(res.Unknown.Calls), res.CtxDone, int64(res.LateUse), res.Panic != "", seen, cli}
			kind := "reject"
			if res.Backend.Calls > 0 {
				kind = "backend"
			} else if res.Unknown.Calls > 0 {
				kind = "unknown"
			}
			c.emit(Case{Suite: "serve.dispatch", In: L{tconfV(cfg), in2, Bb(body), rr.value(), expectReject}, Out: out,
				Tags: []string{"dispatch:" + tag, "dispatch.outcome:" + kind, "dispatch.form:" + formNames[form]}, Desc: res.Panic})
		}
	}
}
