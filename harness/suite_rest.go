package main

import (
	"encoding/base64"
	"encoding/json"
	"fmt"
	"net/http"
	"net/url"
	"strconv"
	"strings"

	"connectrpc.com/vanguard"
	testv1 "connectrpc.com/vanguard/internal/gen/vanguard/test/v1"
	"google.golang.org/protobuf/encoding/protojson"
	"google.golang.org/protobuf/proto"
	"google.golang.org/protobuf/types/known/durationpb"
	"google.golang.org/protobuf/types/known/fieldmaskpb"
	"google.golang.org/protobuf/types/known/timestamppb"
)

// spec-level path escaping for google.api.http variables: everything except unreserved
func escSeg(s string) string {
	var sb strings.Builder
	for i := 0; i < len(s); i++ {
		c := s[i]
		if c >= 'a' && c <= 'z' || c >= 'A' && c <= 'Z' || c >= '0' && c <= '9' || c == '-' || c == '_' || c == '.' || c == '~' {
			sb.WriteByte(c)
		} else {
			fmt.Fprintf(&sb, "%%%02X", c)
		}
	}
	return sb.String()
}

var segValues = []string{"s1", "b-2", "a b", "100%", "x+y", "q?r", "h#i", "é", "a&b=c", "semi;colon", "at@sign", "dot.", "~t", "a:b", "*", "comma,", "quote\"", "brace{}", "sl\\ash", "a%2Fb", "a%2fb", "%2F", "50%25"}

type restCall struct {
	name     string
	method   rpcMethod
	req      proto.Message // the message the backend must receive
	httpMeth string
	target   string // raw request-target
	body     []byte // nil = no body
	newReq   func() proto.Message
	resp     proto.Message // what the backend answers
	newResp  func() proto.Message
	respBody func(raw []byte) (proto.Message, error) // decode the REST response body back into the response message
	invalid  bool
}

func genBook(r *rng) *testv1.Book {
	b := &testv1.Book{Title: pick(r, []string{"", "T", "Ünïcode ✓", "with \"quotes\" & <tags>"}), Author: pick(r, []string{"", "A. U. Thor"})}
	if r.chance(1, 3) {
		b.Labels = map[string]string{"k": "v"}
	}
	if r.chance(1, 3) {
		b.CreateTime = timestamppb.New(timestamppb.Now().AsTime().Truncate(1000))
		b.CreateTime.Nanos = int32(r.intn(1000)) * 1000000
	}
	return b
}

func genRestCall(r *rng) restCall {
	s, b := pick(r, segValues), pick(r, segValues)
	shelf := "shelves/" + s
	book := shelf + "/books/" + b
	shelfPath := "shelves/" + escSeg(s)
	bookPath := shelfPath + "/books/" + escSeg(b)
	q := url.Values{}
	switch r.intn(9) {
	case 0:
		return restCall{name: "GetBook", method: methGetBook, req: &testv1.GetBookRequest{Name: book}, httpMeth: "GET", target: "/v1/" + bookPath,
			newReq: func() proto.Message { return &testv1.GetBookRequest{} }, resp: &testv1.Book{Name: book, Title: "t"}, newResp: func() proto.Message { return &testv1.Book{} }}
	case 1:
		bk := genBook(r)
		m := &testv1.CreateBookRequest{Parent: shelf, Book: bk, BookId: pick(r, []string{"", "id 1", "x&y"}), RequestId: pick(r, []string{"", "r=1"})}
		if m.BookId != "" {
			q.Set(pick(r, []string{"book_id", "bookId"}), m.BookId)
		}
		if m.RequestId != "" {
			q.Set("request_id", m.RequestId)
		}
		body, _ := protojson.Marshal(bk)
		t := "/v1/" + shelfPath + "/books"
		if len(q) > 0 {
			t += "?" + q.Encode()
		}
		return restCall{name: "CreateBook", method: methCreateBook, req: m, httpMeth: "POST", target: t, body: body,
			newReq: func() proto.Message { return &testv1.CreateBookRequest{} }, resp: bk, newResp: func() proto.Message { return &testv1.Book{} }}
	case 2:
		m := &testv1.ListBooksRequest{Parent: shelf, PageSize: int32(r.intn(3)) * int32(r.intn(1000)), PageToken: pick(r, []string{"", "tok en", "a/b"})}
		if m.PageSize != 0 {
			q.Set(pick(r, []string{"page_size", "pageSize"}), strconv.Itoa(int(m.PageSize)))
		}
		if m.PageToken != "" {
			q.Set("page_token", m.PageToken)
		}
		t := "/v1/" + shelfPath + "/books"
		if len(q) > 0 {
			t += "?" + q.Encode()
		}
		return restCall{name: "ListBooks", method: rpcMethod{Service: libraryService, Name: "ListBooks"}, req: m, httpMeth: "GET", target: t,
			newReq: func() proto.Message { return &testv1.ListBooksRequest{} }, resp: &testv1.ListBooksResponse{Books: []*testv1.Book{{Name: "n1"}, {Name: "n2", Title: "x"}}, NextPageToken: "nx"},
			newResp: func() proto.Message { return &testv1.ListBooksResponse{} }}
	case 3:
		bk := genBook(r)
		sent := proto.Clone(bk).(*testv1.Book)
		bk.Name = book // the path variable book.name is applied after the body
		m := &testv1.UpdateBookRequest{Book: bk}
		if r.chance(1, 2) {
			m.UpdateMask = &fieldmaskpb.FieldMask{Paths: []string{"title", "author"}}
			q.Set(pick(r, []string{"update_mask", "updateMask"}), "title,author")
		}
		body, _ := protojson.Marshal(sent)
		t := "/v1/" + bookPath
		if len(q) > 0 {
			t += "?" + q.Encode()
		}
		return restCall{name: "UpdateBook", method: rpcMethod{Service: libraryService, Name: "UpdateBook"}, req: m, httpMeth: "PATCH", target: t, body: body,
			newReq: func() proto.Message { return &testv1.UpdateBookRequest{} }, resp: bk, newResp: func() proto.Message { return &testv1.Book{} }}
	case 4:
		id := r.next() >> uint(r.intn(60))
		m := &testv1.ReturnBooksRequest{Id: id, BookNames: []string{"a", "b c"}}
		body, _ := json.Marshal(map[string]any{"bookNames": m.BookNames})
		return restCall{name: "ReturnBooks", method: rpcMethod{Service: libraryService, Name: "ReturnBooks"}, req: m, httpMeth: "PUT", target: "/v2/checkouts/" + strconv.FormatUint(id, 10), body: body,
			newReq: func() proto.Message { return &testv1.ReturnBooksRequest{} }, resp: nil, newResp: nil}
	case 5:
		m := &testv1.CheckoutBooksRequest{BookNames: []string{"n1", "n 2", "n/3"}}
		body, _ := json.Marshal(m.BookNames)
		return restCall{name: "CheckoutBooks", method: rpcMethod{Service: libraryService, Name: "CheckoutBooks"}, req: m, httpMeth: "POST", target: "/v2/checkouts", body: body,
			newReq: func() proto.Message { return &testv1.CheckoutBooksRequest{} }, resp: &testv1.Checkout{Id: 7, Books: []*testv1.Book{{Name: "n1"}}}, newResp: func() proto.Message { return &testv1.Checkout{} }}
	case 6:
		m := &testv1.MoveBooksRequest{NewParent: shelf, Books: []string{"b1", "b2"}}
		body, _ := json.Marshal(m.Books)
		return restCall{name: "MoveBooks", method: rpcMethod{Service: libraryService, Name: "MoveBooks"}, req: m, httpMeth: "POST", target: "/v2/" + shelfPath + "/books:move", body: body,
			newReq: func() proto.Message { return &testv1.MoveBooksRequest{} }, resp: nil, newResp: nil}
	case 7:
		id := uint64(r.intn(100000))
		books := []*testv1.Book{{Name: "x"}, {Name: "y", Author: "z"}}
		return restCall{name: "GetCheckout", method: rpcMethod{Service: libraryService, Name: "GetCheckout"}, req: &testv1.GetCheckoutRequest{Id: id}, httpMeth: "GET", target: "/v2/checkouts/" + strconv.FormatUint(id, 10),
			newReq: func() proto.Message { return &testv1.GetCheckoutRequest{} }, resp: &testv1.Checkout{Id: id, Books: books}, newResp: func() proto.Message { return &testv1.Checkout{} },
			respBody: func(raw []byte) (proto.Message, error) {
				// response_body: "books" -> the body is the JSON array of the books field only
				var arr []json.RawMessage
				if err := json.Unmarshal(raw, &arr); err != nil {
					return nil, err
				}
				out := &testv1.Checkout{Id: id}
				for _, e := range arr {
					bk := &testv1.Book{}
					if err := protojson.Unmarshal(e, bk); err != nil {
						return nil, err
					}
					out.Books = append(out.Books, bk)
				}
				return out, nil
			}}
	default:
		// ill-typed parameters must be rejected as invalid_argument
		bad := pick(r, []string{"/v1/" + shelfPath + "/books?page_size=abc", "/v2/checkouts/notanumber", "/v1/" + shelfPath + "/books?page_size=99999999999",
			"/v2/checkouts/-5", "/v1/" + shelfPath + "/books?page_size=1.5", "/v2/checkouts/1e3"})
		return restCall{name: "invalid", method: methGetBook, httpMeth: "GET", target: bad, invalid: true, newReq: func() proto.Message { return &testv1.ListBooksRequest{} }}
	}
}

func init() {
	suites["restbind"] = func(c *ctx) {
		r := c.r
		// long-lived transcoders shared by all cases (so that state carried between requests shows)
		var seen backendObs
		var answer proto.Message
		var answerErr *backendResp // when set: end the RPC with this error (code, message, details)
		backend := http.HandlerFunc(func(w http.ResponseWriter, rq *http.Request) {
			seen = backendObs{Calls: seen.Calls + 1, Method: rq.Method, Path: rq.URL.Path}
			buf := make([]byte, 1<<16)
			var body []byte
			for {
				n, err := rq.Body.Read(buf)
				body = append(body, buf[:n]...)
				if err != nil {
					seen.Reads = append(seen.Reads, readResult{Data: body, Err: errClass(err)})
					break
				}
			}
			w.Header().Set("Content-Type", "application/grpc")
			if seen.lastReadErr() != "EOF" {
				w.Header().Set("Grpc-Status", "13")
				w.Header().Set("Grpc-Message", "read failed")
				return
			}
			if answerErr != nil {
				w.Header().Set("Grpc-Status", strconv.FormatInt(answerErr.ErrCode, 10))
				w.Header().Set("Grpc-Message", percentEncode(answerErr.ErrMsg))
				if len(answerErr.Details) > 0 {
					bin, _ := proto.Marshal(answerErr.statusProto())
					w.Header().Set("Grpc-Status-Details-Bin", base64.RawStdEncoding.EncodeToString(bin))
				}
				return
			}
			w.WriteHeader(200)
			if answer != nil {
				payload, _ := proto.Marshal(answer)
				w.Write(envelope(0, payload))
			} else {
				w.Write(envelope(0, nil))
			}
			w.Header().Set(http.TrailerPrefix+"Grpc-Status", "0")
		})
		mk := func(h http.Handler, p vanguard.Protocol, codec string) *vanguard.Transcoder {
			var svc *vanguard.Service
			opts := []vanguard.ServiceOption{vanguard.WithTargetProtocols(p), vanguard.WithTargetCodecs(codec)}
			switch schemaMode {
			case 1:
				svc = vanguard.NewServiceWithSchema(dynamicServiceDesc(libraryService, 1), h, opts...)
			case 2:
				svc = vanguard.NewServiceWithSchema(dynamicServiceDesc(libraryService, 2), h, append(opts, vanguard.WithTypeResolver(emptyResolver{}))...)
			default:
				svc = vanguard.NewService(libraryService, h, opts...)
			}
			tc, err := vanguard.NewTranscoder([]*vanguard.Service{svc})
			if err != nil {
				panic(err)
			}
			return tc
		}
		toGRPC := mk(backend, vanguard.ProtocolGRPC, "proto") // REST (or anything) -> gRPC backend
		toREST := mk(toGRPC, vanguard.ProtocolREST, "json")   // RPC client -> REST -> (second hop) -> gRPC backend
		for i := 0; i < c.n; i++ {
			call := genRestCall(r)
			answer = call.resp
			answerErr = nil
			failing := !call.invalid && r.chance(1, 6)
			if failing {
				answerErr = &backendResp{ErrCode: int64(1 + r.intn(16)), ErrMsg: pick(r, respErrMessages)}
				if r.chance(2, 3) {
					answerErr.Details = []proto.Message{durationpb.New(2500000000), &testv1.Book{Name: "detail"}}[:1+r.intn(2)]
				}
			}
			seen = backendObs{}
			chain := r.chance(1, 2) && !call.invalid
			unroutable, badName := false, ""
			if chain && !failing && (call.name == "GetBook" || call.name == "ListBooks" || call.name == "CreateBook") && r.chance(1, 6) {
				// a well-formed message whose resource name does not fit the REST route of the next hop
				bad := pick(r, []string{"not-a-resource", "", "books/b/shelves/s", "shelf/s/books/b"})
				switch m := call.req.(type) {
				case *testv1.GetBookRequest:
					call.req = &testv1.GetBookRequest{Name: bad}
				case *testv1.ListBooksRequest:
					call.req = &testv1.ListBooksRequest{Parent: bad, PageSize: m.PageSize}
				case *testv1.CreateBookRequest:
					call.req = &testv1.CreateBookRequest{Parent: bad, Book: m.Book}
				}
				unroutable, badName = true, bad
			}
			var res scenarioResult
			var form int
			if chain {
				form = pick(r, []int{formConnectPost, formGRPC, formGRPCWeb})
				codec := pick(r, []string{"proto", "json"})
				spec := clientSpec{Form: form, Codec: codec, Method: call.method, Msgs: [][]byte{marshal(codec, call.req)}, Flags: []bool{true}}
				res = runOn(toREST, spec.build(), &res)
			} else {
				form = formREST
				req := clientReq{Method: call.httpMeth, Target: call.target, ProtoMajor: 1, ContentLen: -2}
				if call.body != nil {
					req.Headers = [][2]string{{"Content-Type", "application/json"}}
					req.Chunks = [][]byte{call.body}
				}
				res = runOn(toGRPC, req, &res)
			}
			view := decodeClient(form, res.Rec)
			code := int64(0)
			for _, e := range view.Ends {
				code = e.Code
			}
			reqEqual, respEqual := false, false
			if seen.Calls == 1 && len(seen.Reads) == 1 && len(seen.Reads[0].Data) >= 5 {
				got := call.newReq()
				if err := proto.Unmarshal(seen.Reads[0].Data[5:], got); err == nil {
					reqEqual = call.req != nil && proto.Equal(got, call.req)
				}
			}
			if code == 0 && !call.invalid {
				data := view.Data
				if formEnveloped(form) && len(data) >= 5 {
					data = data[5:]
				}
				switch {
				case call.newResp == nil:
					respEqual = true
				case form == formREST && call.respBody != nil:
					m, err := call.respBody(data)
					respEqual = err == nil && proto.Equal(m, call.resp)
				default:
					m := call.newResp()
					want := call.resp
					if chain && call.name == "GetCheckout" {
						// response_body: "books" carries only that field over REST; the rest cannot survive the hop
						want = &testv1.Checkout{Books: call.resp.(*testv1.Checkout).Books}
					}
					_ = want
					codec := "json"
					if form != formREST {
						codec = map[bool]string{true: "proto", false: "json"}[strings.Contains(view.Head.Get("Content-Type"), "proto")]
					}
					if err := unmarshal(codec, data, m); err == nil {
						respEqual = proto.Equal(m, want)
					}
				}
			}
			kind := int64(0)
			if chain {
				kind = 1
			}
			if call.invalid {
				kind = 2
			}
			wantCode, wantDetails := int64(0), int64(0)
			gotDetails := int64(0)
			gotMsgOK := true
			if failing {
				kind = 3
				wantCode, wantDetails = answerErr.ErrCode, int64(len(answerErr.Details))
				for _, e := range view.Ends {
					gotDetails = int64(len(e.Details))
					gotMsgOK = e.Msg == answerErr.ErrMsg
				}
			}
			if unroutable {
				kind = 4
			}
			extraTags := []string{}
			if chain && strings.Contains(strings.ToLower(string(mustJSON(call.req))), "%2f") && strings.Contains(string(mustJSON(call.req)), "%2f") {
				// the literal characters %2f inside a value that spans several path segments
				extraTags = append(extraTags, "restbind:lower-hex-slash")
			}
			c.emit(Case{Suite: "rest.bind", In: L{kind, B(call.name), B(call.target), wantCode, wantDetails, B(badName)},
				Out: L{reqEqual, respEqual, code, int64(res.Rec.status()), int64(seen.Calls), res.Panic != "", gotDetails, gotMsgOK, int64(res.Rec.headCount())},
				Tags: append([]string{"restbind:" + call.name, "restbind.kind:" + []string{"rest-client", "chain", "invalid", "error", "unroutable"}[kind]}, extraTags...), Desc: res.Panic})
		}
		// google.api.HttpBody bindings
		httpBodyCases(c, c.n/5)
	}
}

func mustJSON(m proto.Message) []byte {
	if m == nil {
		return nil
	}
	b, err := protojson.Marshal(m)
	if err != nil {
		panic(err)
	}
	return b
}
