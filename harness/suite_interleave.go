package main

import (
	"connectrpc.com/vanguard"
	"fmt"
	"io"
	"net/http"
	"runtime"

	"google.golang.org/protobuf/proto"

	testv1 "connectrpc.com/vanguard/internal/gen/vanguard/test/v1"
)

// C14 with a forced schedule: RPC A runs into trouble (or not) while its handler is still running;
// RPC B starts, takes its buffers and waits inside its handler; A's handler returns; B finishes.
// Whatever A does after its trouble must not reach B: B's result equals what B gets alone.
// One P only, so that sync.Pool hands what A released straight to B.
func interleaveCases(c *ctx, n int) {
	r := c.r
	prev := runtime.GOMAXPROCS(1)
	defer runtime.GOMAXPROCS(prev)
	canaryInRunOn = false
	defer func() { canaryInRunOn = true; vanguard.VerifPoolCheckReleased() }()
	for i := 0; i < n; i++ {
		target := pick(r, []vanguard.Protocol{vanguard.ProtocolConnect, vanguard.ProtocolConnect, vanguard.ProtocolGRPC, vanguard.ProtocolREST})
		serverCodec := pick(r, []string{"proto", "json"})
		if target == vanguard.ProtocolREST {
			serverCodec = "json"
		}
		clientCodec := map[string]string{"proto": "json", "json": "proto"}[serverCodec]
		aKind := pick(r, []string{"malformed-after-reply", "malformed-after-reply", "malformed-after-reply", "malformed-before-reply", "valid", "reply-then-error"})
		formA := pick(r, []int{formConnectPost, formREST})
		formB := pick(r, []int{formConnectPost, formREST})
		if formA == formREST || formB == formREST {
			// REST clients speak JSON: keep the two sides on different codecs so that both RPCs are transformed
			clientCodec, serverCodec = "json", "proto"
			if target == vanguard.ProtocolREST {
				target = vanguard.ProtocolGRPC
			}
		}
		bStarted := make(chan struct{})
		aReturned := make(chan struct{})
		var interleaved, bLaunched bool
		bDone := make(chan struct{})
		respond := func(w http.ResponseWriter, name string) {
			bk := &testv1.Book{Name: name, Title: "the title of " + name}
			switch target {
			case vanguard.ProtocolGRPC:
				w.Header().Set("Content-Type", "application/grpc+"+serverCodec)
				w.WriteHeader(200)
				w.Write(envelope(0, marshal(serverCodec, bk)))
				w.Header().Set(http.TrailerPrefix+"Grpc-Status", "0")
			case vanguard.ProtocolREST:
				w.Header().Set("Content-Type", "application/json")
				w.WriteHeader(200)
				w.Write(marshal("json", bk))
			default:
				w.Header().Set("Content-Type", "application/"+serverCodec)
				w.WriteHeader(200)
				w.Write(marshal(serverCodec, bk))
			}
		}
		var runB func()
		backend := http.HandlerFunc(func(w http.ResponseWriter, rq *http.Request) {
			isA := rq.Header.Get("X-Verif-Id") == "A"
			if !isA {
				io.Copy(io.Discard, rq.Body)
				respond(w, "shelves/s/books/book-b")
				if interleaved {
					close(bStarted)
					<-aReturned
				}
				return
			}
			switch aKind {
			case "malformed-after-reply", "reply-then-error":
				respond(w, "shelves/s/books/book-a")
				io.Copy(io.Discard, rq.Body)
			default:
				io.Copy(io.Discard, rq.Body)
				respond(w, "shelves/s/books/book-a")
			}
			if interleaved {
				bLaunched = true
				go runB()
				select {
				case <-bStarted:
				case <-bDone:
				}
			}
		})
		opts := []vanguard.ServiceOption{vanguard.WithTargetProtocols(target), vanguard.WithTargetCodecs(serverCodec)}
		tc := mustTranscoder(vanguard.NewService(libraryService, backend, opts...))
		mkReq := func(form int, id string, malformed bool) clientReq {
			spec := getBookSpec(form, clientCodec, "", "shelves/s/books/book-"+map[string]string{"A": "a", "B": "b"}[id])
			req := spec.build()
			req.Headers = append(req.Headers, [2]string{"X-Verif-Id", id})
			if malformed && form != formREST {
				garbage := []byte(`{"name": this is not JSON`)
				if clientCodec == "proto" {
					garbage = []byte{0x0a, 0xff, 0xff, 0xff}
				}
				req.Chunks = [][]byte{garbage}
			}
			return req
		}
		malformedA := aKind == "malformed-after-reply" || aKind == "malformed-before-reply"
		reqA, reqB := mkReq(formA, "A", malformedA), mkReq(formB, "B", false)
		view := func(form int, res scenarioResult) L {
			v := decodeClient(form, res.Rec)
			return L{v.value(res.Panic != "", nil, map[string]bool{"": true}), Bb(res.Rec.body())}
		}
		// alone
		interleaved = false
		var sa, sb scenarioResult
		sa = runOn(tc, reqA, &sa)
		sb = runOn(tc, reqB, &sb)
		soloA, soloB := view(formA, sa), view(formB, sb)
		// interleaved
		interleaved = true
		var ra, rb scenarioResult
		runB = func() {
			rb = runOn(tc, reqB, &rb)
			close(bDone)
		}
		ra = runOn(tc, reqA, &ra)
		close(aReturned)
		if !bLaunched {
			runB() // A never reached its handler: B simply runs afterwards
		}
		<-bDone
		conA, conB := view(formA, ra), view(formB, rb)
		desc := fmt.Sprintf("A (%s, %s) interleaved with B (%s); backend %v/%s", formNames[formA], aKind, formNames[formB], target, serverCodec)
		tags := []string{"interleave:" + aKind, "interleave.target:" + fmt.Sprint(target)}
		c.emit(Case{Suite: "history.probe", In: L{B("interleave-B"), int64(i)}, Out: L{conB, soloB}, Tags: tags, Desc: desc + " - what B's client sees"})
		c.emit(Case{Suite: "history.probe", In: L{B("interleave-A"), int64(i)}, Out: L{conA, soloA}, Tags: tags, Desc: desc + " - what A's client sees"})
		_ = proto.Marshal
	}
}
